"""C04 -- a formula is marked correct exactly when enough samples agree within tolerance."""
import ast

from ..index import AnalysisError, walk_own, walk_all, unparse, short, ancestors, enclosing_stmt
from ..cfg import cfg_of
from .. import nf, lib
from ..selftest import Mutant, Benign
from . import _c04_flow as fl
from . import _c09_eval as mev
from . import _validators as vd

ID = 'C04'
MF = 'mitxgraders/helpers/calc/mathfuncs.py'
MH = 'mitxgraders/helpers/math_helpers.py'
FG = 'mitxgraders/formulagrader/formulagrader.py'
IG = 'mitxgraders/formulagrader/integralgrader.py'
MG = 'mitxgraders/formulagrader/matrixgrader.py'
CMP = 'mitxgraders/comparers/comparers.py'
VF = 'mitxgraders/helpers/validatorfuncs.py'
FILES = [MF, MH, FG, IG, MG, CMP, VF]

EXPLANATION = (
    'Structural rules over the helper-inlined source; finite-domain evaluation is used only for GUARDS over '
    'their complete domain with opaque data, never for results. (D1) within_tolerance: decision paths; the '
    'path taken by each operand class (x, y each = -inf / finite / +inf by order type against the infinity '
    'constants, number vs array by isinstance class, tolerance str vs number) is found by evaluating the '
    'guards; every class with an infinite operand must end in the normal form `x == y`, array operands must '
    'not reach the infinity test, and the remaining leaves must have the normal form norm(x - y) <= t (non- '
    'strict; numpy norm resolved by name; closed table of entrywise forms = violation) with t the tolerance or '
    'norm(x) * percentage_as_number(tolerance) relative to the FIRST argument; percentage_as_number = '
    'float(s.strip()[:-1]) * 0.01. (D2) author/student roles at every hop gen_evaluations -> raw_check -> '
    'compare_evaluations -> comparer -> utils.within_tolerance -> within_tolerance by def-use; in '
    'compare_evaluations every comparer application is traced through its iteration construct (for + append, '
    'comprehension, one-element list) to zip(author, student) or the whole lists per isinstance(comparer, '
    'CorrelatedComparer) path. (D3) consolidate_results: the iteration over the results is recognised as '
    'counting loop / enumerate over the filtered results / filtered list; the failure predicate is evaluated '
    "over ok in {True, False, 'partial'} on an otherwise opaque record; the return condition is evaluated over "
    'the count classes (len(results) = 1 or more, running failure count <, =, > failable_evals, counter start '
    'and increment-before-test taken from the code) and must equal: failing iff (one sample and it fails) or '
    'failures > failable_evals; the returned objects are checked by provenance. (D4) same-iteration, same- '
    'scope evaluation of author and student, sample loading, credit multiplication and the consolidate '
    'arguments by CFG/def-use. (D5) schema tables; PercentageString: sign test on float(text[:-1]) evaluated '
    "over the order classes negative/zero/positive/nan, '%' suffix test, no fall-through. "
)
NOT_DECIDED = (
    'that algebraically identical rewrites agree numerically within the tolerance (floating point); the value '
    "of numpy's norm; behaviour of author-supplied comparers and transforms; any shape of the anchored "
    'functions outside the recognised iteration/decision forms (reported as analysis-error, never guessed). '
)
ASSUMPTIONS = ["np.linalg.norm is the Frobenius/Euclidean norm and is symmetric in the sign of its argument",
               "author-supplied comparers use utils.within_tolerance(expected, student) as documented"]

WT = 'mitxgraders.helpers.calc.mathfuncs.within_tolerance'
PAN = 'mitxgraders.helpers.calc.mathfuncs.percentage_as_number'
MM = 'mitxgraders.helpers.math_helpers.MathMixin'
FGC = 'mitxgraders.formulagrader.formulagrader.FormulaGrader'
NGC = 'mitxgraders.formulagrader.formulagrader.NumericalGrader'
MGC = 'mitxgraders.formulagrader.matrixgrader.MatrixGrader'
SGB = 'mitxgraders.formulagrader.integralgrader.SummationGraderBase'
IGC = 'mitxgraders.formulagrader.integralgrader.IntegralGrader'
SGC = 'mitxgraders.formulagrader.integralgrader.SumGrader'
EQC = 'mitxgraders.comparers.comparers.EqualityComparer'


def check(ctx):
    idx = ctx.index
    d1_within_tolerance(ctx, idx)
    d1_percentage(ctx, idx)
    d2_roles(ctx, idx)
    d3_consolidate(ctx, idx)
    d4_samples(ctx, idx)
    d4_count(ctx, idx)
    d4_credit(ctx, idx)
    d5_tables(ctx, idx)


# ----------------------------------------------------------------------------- D1
def _is_norm(idx, module, func):
    return idx.dotted_of(module, func) in ('numpy.linalg.norm', 'numpy.linalg.linalg.norm')


def _inf_atom(e, params):
    """(param, sign) if e is `<param> == float('inf')` / `<param> == -float('inf')` (either order)."""
    if not (isinstance(e, ast.Compare) and len(e.ops) == 1 and isinstance(e.ops[0], ast.Eq)):
        return None
    for a, b in ((e.left, e.comparators[0]), (e.comparators[0], e.left)):
        if isinstance(a, ast.Name) and a.id in params:
            sign = 1
            if isinstance(b, ast.UnaryOp) and isinstance(b.op, ast.USub):
                sign, b = -1, b.operand
            if nf.match("float('inf')", b) is not None or nf.match("np.inf", b) is not None \
                    or nf.match("math.inf", b) is not None:
                return a.id, sign
            if nf.match("float('-inf')", b) is not None:
                return a.id, -sign
    return None


def _mentions_inf(node):
    for n in ast.walk(node):
        if isinstance(n, ast.Constant) and isinstance(n.value, str) and n.value.strip('+-').lower() in ('inf', 'infinity'):
            return True
        if isinstance(n, ast.Attribute) and n.attr in ('inf', 'isinf', 'isfinite', 'infty'):
            return True
        if isinstance(n, ast.Name) and n.id in ('isinf', 'isfinite'):
            return True
    return False


def _norm_arg(idx, module, e):
    if isinstance(e, ast.Call) and isinstance(e.func, (ast.Attribute, ast.Name)) and _is_norm(idx, module, e.func) \
            and len(e.args) == 1 and not e.keywords:
        return e.args[0]
    return None


ENTRYWISE_CALLS = {'numpy.allclose', 'numpy.isclose', 'numpy.array_equal', 'numpy.array_equiv', 'math.isclose',
                   'numpy.testing.assert_allclose'}
ABS_CALLS = {'numpy.abs', 'numpy.absolute', 'numpy.fabs', 'abs'}
MAX_CALLS = {'numpy.max', 'numpy.amax', 'numpy.nanmax', 'max'}
ALL_CALLS = {'numpy.all', 'numpy.alltrue', 'all'}


def _dotted(idx, module, func):
    if isinstance(func, (ast.Attribute, ast.Name)):
        return idx.dotted_of(module, func)
    return None


def _is_abs(idx, module, e):
    return isinstance(e, ast.Call) and _dotted(idx, module, e.func) in ABS_CALLS and len(e.args) == 1


def _entrywise_form(idx, module, leaf):
    """Closed table of entrywise (per-entry / max-norm) closeness tests; a description or None."""
    for n in ast.walk(leaf):
        if isinstance(n, ast.Call) and _dotted(idx, module, n.func) in ENTRYWISE_CALLS:
            return '%s compares entry by entry' % _dotted(idx, module, n.func).replace('numpy.', 'np.')
    e = leaf
    # all(|d| <= t)   /   (|d| <= t).all()
    inner = None
    if isinstance(e, ast.Call) and _dotted(idx, module, e.func) in ALL_CALLS and len(e.args) == 1:
        inner = e.args[0]
    elif isinstance(e, ast.Call) and isinstance(e.func, ast.Attribute) and e.func.attr == 'all' and not e.args:
        inner = e.func.value
    if inner is not None:
        c = nf.canon(inner)
        if isinstance(c, ast.Compare) and len(c.ops) == 1 and isinstance(c.ops[0], (ast.Lt, ast.LtE)) and \
                (_is_abs(idx, module, c.left) or _is_abs(idx, module, c.comparators[0])):
            return 'all(|difference| <= tolerance) tests every entry separately'
    # max(|d|) <= t   /   |d|.max() <= t
    if isinstance(e, ast.Compare) and len(e.ops) == 1 and isinstance(e.ops[0], (ast.Lt, ast.LtE)):
        for side in (e.left, e.comparators[0]):
            if isinstance(side, ast.Call) and _dotted(idx, module, side.func) in MAX_CALLS and len(side.args) >= 1 \
                    and _is_abs(idx, module, side.args[0]):
                return 'max(|difference|) is the max-norm'
            if isinstance(side, ast.Call) and isinstance(side.func, ast.Attribute) and side.func.attr == 'max' and not side.args \
                    and _is_abs(idx, module, side.func.value):
                return '|difference|.max() is the max-norm'
            # norm(d, np.inf)
            if isinstance(side, ast.Call) and isinstance(side.func, (ast.Attribute, ast.Name)) and _is_norm(idx, module, side.func) \
                    and (len(side.args) == 2 or any(k.arg == 'ord' for k in side.keywords)):
                o = side.args[1] if len(side.args) == 2 else [k.value for k in side.keywords if k.arg == 'ord'][0]
                if nf.match('np.inf', o) is not None or nf.match("float('inf')", o) is not None:
                    return 'norm(difference, inf) is the max-norm'
    return None


def _split_decision(idx, module, leaf):
    """(problem text or None, difference expr, tolerance expr) for a canonical `norm(d) <op> t`, else None."""
    if not (isinstance(leaf, ast.Compare) and len(leaf.ops) == 1):
        return None
    a, b, op = leaf.left, leaf.comparators[0], leaf.ops[0]
    da, db = _norm_arg(idx, module, a), _norm_arg(idx, module, b)
    if da is not None and db is None:
        if isinstance(op, ast.LtE):
            return None, da, b
        if isinstance(op, ast.Lt):
            return 'strict `<` instead of `<=`: a difference exactly equal to the tolerance (e.g. tolerance 0 and an exact match) fails', da, b
        return 'comparison operator `%s` instead of `<=`' % type(op).__name__, da, b
    if db is not None and da is None:
        if isinstance(op, (ast.LtE, ast.Lt)):
            return 'comparison direction inverted: passes when the difference is at least the tolerance (`%s`)' % unparse(leaf), db, a
        return 'comparison operator `%s` instead of `<=`' % type(op).__name__, db, a
    return None


def _check_tol_leaf(r, idx, fi, C, tag, leaf, where, px, py, pt):
    """Structural check of one value-returning tolerance path; tag is 'percentage' or 'absolute'."""
    got = _split_decision(idx, fi.module, leaf)
    if got is None:
        ew = _entrywise_form(idx, fi.module, leaf)
        if ew:
            r.violation(C + ': comparison [%s]' % tag, 'entrywise test instead of the norm of the difference (%s in `%s`): the '
                        'tolerance is applied per entry (max-norm), so an array whose entries each miss by less than the '
                        'tolerance is accepted although its Frobenius distance exceeds it (e.g. [3.09, 4.09] vs [3, 4] with '
                        'tolerance 0.1)' % (ew, short(leaf, 90)), where, expected='norm(x - y) <= tolerance', found=unparse(leaf))
        elif isinstance(leaf, ast.Constant):
            r.violation(C + ': comparison [%s]' % tag, 'returns the constant %r instead of comparing' % leaf.value, where)
        else:
            r.undecided(C + ': comparison [%s]' % tag, 'decision expression not recognised: %s' % short(leaf), where)
        return
    problem, diff, T = got
    if problem:
        r.violation(C + ': comparison [%s]' % tag, problem + ' -- the decision is no longer norm(x - y) <= tolerance '
                    '(a difference exactly at the tolerance must pass, a larger one must fail)', where,
                    expected='norm(x - y) <= tolerance', found=unparse(leaf))
        return
    dres = nf.classify(['%s - %s' % (px, py), '%s - %s' % (py, px)], diff)
    if isinstance(dres, tuple):
        r.violation(C + ': comparison [%s]' % tag, 'the compared quantity is not the difference of the two values: ' + dres[1],
                    where, expected='norm(%s - %s)' % (px, py), found=unparse(diff))
        return
    if dres != nf.MATCH:
        names = lib.names_in(diff)
        if isinstance(diff, ast.BinOp) and isinstance(diff.op, ast.Sub) and names and (names <= {px} or names <= {py}):
            r.violation(C + ': comparison [%s]' % tag, 'the difference `%s` involves only one of the two values'
                        % unparse(diff), where, expected='%s - %s' % (px, py))
        else:
            r.undecided(C + ': comparison [%s]' % tag, 'compared quantity not recognised: %s' % short(diff), where)
        return
    if tag == 'percentage':
        tb = {}
        tres = nf.classify('_N(_R) * percentage_as_number(%s)' % pt, T, tb)
        if tres == nf.MATCH and isinstance(tb['_N'], (ast.Attribute, ast.Name)) and _is_norm(idx, fi.module, tb['_N']):
            ref = fl.name_of(tb['_R'])
            if ref == px:
                r.ok(C + ': comparison [percentage]', 'norm(x - y) <= norm(x) * p, relative to the first argument', where)
            elif ref == py:
                r.violation(C + ': comparison [percentage]', 'the percentage is taken of norm(%s), the SECOND argument '
                            "(the student's value), not of the author's value: e.g. expected 10, student 9.01, 10%% "
                            'now fails' % py, where, expected='norm(%s) * percentage' % px, found=unparse(T))
            else:
                r.undecided(C + ': comparison [percentage]', 'reference of the percentage not recognised: %s' % short(T), where)
        elif isinstance(tres, tuple):
            r.violation(C + ': comparison [percentage]', tres[1], where,
                        expected='norm(%s) * percentage_as_number(%s)' % (px, pt), found=unparse(T))
        elif isinstance(T, ast.Name) and T.id == pt:
            r.violation(C + ': comparison [percentage]', 'a percentage string is compared as it stands (no conversion under '
                        'isinstance(tolerance, str)): the comparison of a number with a str raises for every percentage tolerance', where,
                        expected='norm(%s) * percentage_as_number(%s)' % (px, pt))
        else:
            r.undecided(C + ': comparison [percentage]', 'tolerance term not recognised: %s' % short(T), where)
    else:
        if isinstance(T, ast.Name) and T.id == pt:
            r.ok(C + ': comparison [absolute]', 'norm(x - y) <= tolerance', where)
        else:
            tres = nf.classify('_N(_R) * percentage_as_number(%s)' % pt, T, {})
            if tres == nf.MATCH:
                r.violation(C + ': comparison [absolute]', 'the percentage conversion is applied when the tolerance is NOT a '
                            'string (test inverted)', where, expected='isinstance(%s, str)' % pt)
            else:
                r.undecided(C + ': comparison [absolute]', 'tolerance term not recognised: %s' % short(T), where)


_GUARD_HELPERS_SEEN = set()


def _inline_guard_helpers(idx, fi, guard, depth=2):
    """Replace calls of newly extracted single-expression predicate helpers (same module, one `return <expr>` after
    forward substitution) by their body with the arguments substituted -- on the AST, nothing is evaluated."""
    class T(ast.NodeTransformer):
        def visit_Call(self, node):
            self.generic_visit(node)
            if isinstance(node.func, ast.Name) and node.func.id in fi.module.funcs and not node.keywords:
                h = fi.module.funcs[node.func.id]
                if h.qualname in idx.unreviewed and len(node.args) == len(h.params) and not h.node.args.defaults:
                    hp = nf.decision_paths(h.node.body)
                    if len(hp) == 1 and hp[0].leaf.kind == 'ret' and not hp[0].effects:
                        _GUARD_HELPERS_SEEN.add(h.qualname)
                        return nf.subst(hp[0].leaf.expr, dict(zip(h.params, node.args)))
            return node
    from ..index import clone
    out = clone(guard)
    for _ in range(depth):
        out = T().visit(out)
    return nf.canon(out)


def _expand_leaf_calls(idx, fi, paths, depth=3):
    """A path that ends in `return g(args)` with g a function of the same module (e.g. within_tolerance delegating to
    is_nearly_zero(x - y, tolerance, reference=x)) is replaced by g's own decision paths with the arguments substituted
    (guards appended, raising paths dropped): composition of decision paths, on the AST only."""
    out = []
    for p in paths:
        leaf = p.leaf.expr
        g = None
        if depth > 0 and isinstance(leaf, ast.Call) and isinstance(leaf.func, ast.Name) and leaf.func.id in fi.module.funcs \
                and leaf.func.id != fi.name and not any(isinstance(a, ast.Starred) for a in leaf.args) \
                and all(k.arg for k in leaf.keywords):
            g = fi.module.funcs[leaf.func.id]
        if g is None or g.node.args.vararg or g.node.args.kwarg or g.qualname in (PAN,):
            out.append(p)
            continue
        a = g.node.args
        names = [x.arg for x in a.args]
        defaults = dict(zip(names[len(names) - len(a.defaults):], a.defaults))
        env = {}
        for i, n in enumerate(names):
            if i < len(leaf.args):
                env[n] = leaf.args[i]
        for k in leaf.keywords:
            env[k.arg] = k.value
        for n in names:
            if n not in env and n in defaults:
                env[n] = defaults[n]
        if set(names) - set(env):
            out.append(p)
            continue
        sub = nf.decision_paths(g.node.body)
        sub = _expand_leaf_calls(idx, g, [q for q in sub if q.leaf.kind == 'ret'], depth - 1) + [q for q in sub if q.leaf.kind != 'ret']
        for q in sub:
            if q.leaf.kind != 'ret':
                continue            # a raising path of the callee does not return a verdict
            guards = list(p.guards) + [nf.canon(nf.subst(x, env)) for x in q.guards]
            leaf2 = nf.canon(nf.subst(q.leaf.expr, env))
            out.append(nf.Path(guards, nf.Leaf('ret', leaf2, p.leaf.stmt, p.leaf.env), list(p.effects) + list(q.effects)))
    return out


def d1_within_tolerance(ctx, idx):
    r = ctx.rule('D1.TOL', 'within_tolerance decides norm(x - y) <= t (non-strict), t absolute or a percentage of '
                 'norm(x); +-inf only equals itself', floor=4)
    with r:
        fi = idx.func(WT)
        if len(fi.params) != 3:
            raise AnalysisError('within_tolerance no longer has three parameters')
        px, py, pt = fi.params
        C = 'within_tolerance'
        paths = nf.decision_paths(fi.node.body)
        for p in paths:
            where = lib.loc(fi, p.leaf.stmt) if p.leaf.stmt is not None else fi.loc
            if p.leaf.kind == 'fall':
                r.violation(C, 'a path falls off the end and returns None (falsy): matching values are graded wrong '
                            '(guards: %s)' % (' and '.join(unparse(g) for g in p.guards) or 'none'), where)
            elif p.leaf.kind == 'raise':
                r.undecided(C, 'unreviewed raise inside within_tolerance: %s' % short(p.leaf.stmt), where)
        paths = [p for p in paths if p.leaf.kind == 'ret']
        paths = _expand_leaf_calls(idx, fi, paths)
        for p in paths:
            p.guards = [_inline_guard_helpers(idx, fi, g) for g in p.guards]
        understood = not [q for q in idx.unreviewed if q not in _GUARD_HELPERS_SEEN]
        INF = float('inf')
        ARR = mev.ArrayModel()

        def path_for(x, y, tol):
            env = {px: x, py: y, pt: tol, '__module__': fi.module}
            taken = [p for p in paths if all(mev.ev(g, env) for g in p.guards)]
            if len(taken) != 1:
                raise AnalysisError('within_tolerance: %d paths match the operand class (%r, %r, %r)' % (len(taken), x, y, tol))
            return taken[0], env
        try:
            # ---- infinite operands (numbers)
            bad = und = None
            fallthrough = set()
            n_inf = 0
            for x in (INF, -INF, 1.0):
                for y in (INF, -INF, 1.0, 2.0):
                    if abs(x) != INF and abs(y) != INF:
                        continue
                    for tol in (0.5, '10%', 0):
                        n_inf += 1
                        p, env = path_for(x, y, tol)
                        where = lib.loc(fi, p.leaf.stmt)
                        # the leaf is judged by its FORM only (normal form x == y), never by evaluating it
                        leaf = p.leaf.expr
                        res = nf.classify('%s == %s' % (px, py), leaf)
                        if res == nf.MATCH:
                            continue
                        cls = 'x %s, y %s' % tuple('= +inf' if v == INF else ('= -inf' if v == -INF else 'finite') for v in (x, y))
                        tolform = _split_decision(idx, fi.module, leaf) is not None or _entrywise_form(idx, fi.module, leaf)
                        if isinstance(res, tuple) and bad is None:
                            bad = ('for the operand class (%s) the result is `%s`: %s -- an infinite value must match only the same '
                                   'infinity' % (cls, short(leaf, 60), res[1]), where)
                        elif isinstance(leaf, ast.Constant) and bad is None:
                            bad = ('for the operand class (%s) the constant %r is returned instead of x == y' % (cls, leaf.value), where)
                        elif tolform:
                            fallthrough.add(cls)
                            if bad is None:
                                bad = ('FALLTHROUGH', where, short(leaf, 70))
                        elif und is None and not isinstance(res, tuple) and not isinstance(leaf, ast.Constant) and not tolform:
                            und = ('result for the operand class (%s) not recognised: %s' % (cls, short(leaf)), where)
            if bad and bad[0] == 'FALLTHROUGH':
                all_inf = n_inf // 3
                bad = ('the operand class%s (%s) %s not take the "equal infinities only" branch but the tolerance comparison `%s`%s: there '
                       'inf - inf is nan (nan <= t is False) and, with a percentage tolerance, t = p * |x| is itself infinite, so e.g. every '
                       'finite answer matches an expected -inf (inf <= inf)'
                       % ('es' if len(fallthrough) > 1 else '', '; '.join(sorted(fallthrough)), 'do' if len(fallthrough) > 1 else 'does',
                          bad[2], '' if len(fallthrough) < all_inf else ' (no class with an infinite operand is handled separately any more)'),
                       bad[1])
            if bad and understood:
                r.violation(C + ': infinity clause', bad[0], bad[1], expected='if x or y is +-inf: return x == y')
            elif bad or und:
                r.undecided(C + ': infinity clause', (bad or und)[0], (bad or und)[1])
            else:
                r.ok(C + ': infinity clause', 'every operand class with x or y = +-inf (order type against +-inf, %d classes) returns '
                     'the normal form x == y' % n_inf, fi.loc)
            # ---- arrays never reach the infinity test
            try:
                for tol in (0.5, '10%'):
                    p, env = path_for(ARR, ARR, tol)
                    if _split_decision(idx, fi.module, p.leaf.expr) is None and not _entrywise_form(idx, fi.module, p.leaf.expr) \
                            and not isinstance(p.leaf.expr, ast.Constant):
                        raise mev.ArrayTruth()
                r.ok(C + ': infinity clause [numbers only]', 'array operands go straight to the norm comparison', fi.loc)
            except mev.ArrayTruth:
                if understood:
                    r.violation(C + ': infinity clause [numbers only]', 'the infinity test is no longer restricted to numbers: for array '
                                'operands `x == inf` yields an array without a truth value and grading of every array answer fails',
                                fi.loc, expected='isinstance(x, Number) and ...')
                else:
                    r.undecided(C + ': infinity clause [numbers only]', 'array operands reach a comparison', fi.loc)
            # ---- finite operands: the tolerance comparison
            for tag, tol in (('absolute', 0.5), ('percentage', '10%')):
                leaves = {}
                for x, y in ((1.0, 2.0), (2.0, 1.0), (ARR, ARR)):
                    try:
                        p, env = path_for(x, y, tol)
                    except mev.ArrayTruth:
                        continue        # reported above
                    leaves.setdefault(unparse(p.leaf.expr), p)
                for text, p in leaves.items():
                    _check_tol_leaf(r, idx, fi, C, tag, p.leaf.expr, lib.loc(fi, p.leaf.stmt), px, py, pt)
        except mev.Unsupported as e:
            r.undecided(C, 'a guard of within_tolerance is outside the supported guard evaluation (%s)' % e, fi.loc)


def d1_percentage(ctx, idx):
    r = ctx.rule('D1.PCT', "percentage_as_number('p%') = p * 0.01", floor=1)
    with r:
        fi = idx.func(PAN)
        ps = fi.params[0]
        paths = nf.decision_paths(fi.node.body)
        if len(paths) != 1 or paths[0].leaf.kind != 'ret':
            raise AnalysisError('percentage_as_number: expected a single return')
        leaf = paths[0].leaf.expr
        where = lib.loc(fi, paths[0].leaf.stmt)
        alts = ['float(%s.strip()[:-1]) * 0.01' % ps, 'float(%s.strip()[:-1]) / 100' % ps,
                'float(%s[:-1]) * 0.01' % ps, 'float(%s[:-1]) / 100' % ps,
                "float(%s.strip().rstrip('%%')) * 0.01" % ps, "float(%s.strip().rstrip('%%')) / 100" % ps]
        res = nf.classify(alts, leaf)
        r.verdict('percentage_as_number', res, where, ok_detail='float(s.strip()[:-1]) * 0.01',
                  expected='float(s.strip()[:-1]) * 0.01')


# ----------------------------------------------------------------------------- D2
def _gen_eval_roots(fi):
    """(author parameter, student parameter) of a gen_evaluations implementation."""
    ps = fi.params
    student = 'student_input' if 'student_input' in ps else None
    author = 'comparer_params' if 'comparer_params' in ps else ('answer' if 'answer' in ps else None)
    if not student or not author:
        raise AnalysisError('%s: cannot identify the author/student parameters among %s' % (fi.qualname, ps))
    return author, student


def _role_of(prov, expr, author, student):
    s = prov.of(expr) & {author, student}
    if s == {author}:
        return 'author'
    if s == {student}:
        return 'student'
    if not s:
        return 'none'
    return 'mixed'


def _check_pair(r, construct, where, role0, role1, what, why):
    """Positions 0/1 must carry author/student."""
    if (role0, role1) == ('author', 'student'):
        r.ok(construct, '%s = (author, student)' % what, where)
    elif (role0, role1) == ('student', 'author'):
        r.violation(construct, '%s are swapped: the student\'s value is passed where the author\'s is expected and vice versa; %s'
                    % (what, why), where, expected='(author, student)', found='(student, author)')
    elif role0 == role1 and role0 in ('author', 'student'):
        r.violation(construct, '%s both derive from the %s\'s side: the other side is not compared at all' % (what, role0),
                    where, expected='(author, student)', found='(%s, %s)' % (role0, role1))
    else:
        r.undecided(construct, '%s have roles (%s, %s), not recognised' % (what, role0, role1), where)


WHY_SWAP = "a percentage tolerance becomes relative to the student's value and shape validation is applied to the wrong side"


def _binding_role(e, contexts, p_auth, p_stud):
    """Role of a comparer argument: ('A'|'S', 'whole'|'elem') or None.  `contexts` = [(target, iter expr)] innermost first."""
    if isinstance(e, ast.Name) and e.id == p_auth:
        return ('A', 'whole')
    if isinstance(e, ast.Name) and e.id == p_stud:
        return ('S', 'whole')
    if not isinstance(e, ast.Name):
        return None
    for target, it in contexts:
        names = [fl.name_of(t) for t in target.elts] if isinstance(target, (ast.Tuple, ast.List)) else [fl.name_of(target)]
        if e.id not in names:
            continue
        i = names.index(e.id)
        seq, _ = fl.unwrap_seq(it)
        if isinstance(seq, ast.Call) and nf.callee_name(seq) == 'zip' and isinstance(target, (ast.Tuple, ast.List)) \
                and len(seq.args) == len(names):
            src = seq.args[i]
            if fl.name_of(src) == p_auth:
                return ('A', 'elem')
            if fl.name_of(src) == p_stud:
                return ('S', 'elem')
            return None
        if isinstance(seq, (ast.List, ast.Tuple)) and len(seq.elts) == 1 and isinstance(seq.elts[0], (ast.Tuple, ast.List)) \
                and isinstance(target, (ast.Tuple, ast.List)) and len(seq.elts[0].elts) == len(names):
            src = seq.elts[0].elts[i]       # a one-element sequence: the loop body runs once on the whole lists
            if fl.name_of(src) == p_auth:
                return ('A', 'whole')
            if fl.name_of(src) == p_stud:
                return ('S', 'whole')
            return None
        return None
    return None


def _hop3(r, idx, fi):
    from ..index import set_parents
    p_self, p_auth, p_stud, p_cmp, p_utils = fi.params
    mutated = {fl.name_of(c.func.value) for c in walk_own(fi.node) if isinstance(c, ast.Call) and isinstance(c.func, ast.Attribute)
               and c.func.attr in ('append', 'extend', 'insert')}
    returned = {fl.name_of(x.value) for x in lib.returns_of(fi.node)}
    keep = tuple(n for n in (mutated | returned) if n)
    paths = nf.decision_paths(fi.node.body, keep_locals=keep)
    found = {True: [], False: []}        # correlated? -> list of (problem kind, text, loc) ; 'ok' entries too
    for p in paths:
        if p.leaf.kind == 'raise':
            continue
        pos = any(nf.match('isinstance(%s, CorrelatedComparer)' % p_cmp, g) is not None for g in p.guards)
        neg = any(nf.match('not isinstance(%s, CorrelatedComparer)' % p_cmp, g) is not None for g in p.guards)
        if pos == neg:
            polarities = [True, False] if not pos else []
        else:
            polarities = [pos]
        roots = list(p.effects) + ([p.leaf.expr] if p.leaf.expr is not None else [])
        leaf_name = fl.name_of(p.leaf.expr) if p.leaf.kind == 'ret' else None
        apps = []
        for root in roots:
            set_parents(root)
            for c in ast.walk(root):
                if isinstance(c, ast.Call) and isinstance(c.func, ast.Name) and c.func.id == p_cmp:
                    apps.append((root, c))
        for pol in polarities:
            tag = 'correlated' if pol else 'per sample'
            if not apps:
                found[pol].append(('none', 'no comparer call on the %s path' % tag, fi.loc))
                continue
            for root, c in apps:
                where = lib.loc(fi, c) if getattr(c, 'lineno', None) else fi.loc
                if len(c.args) != 3 or c.keywords:
                    found[pol].append(('und', 'call shape not recognised: %s' % short(c), where))
                    continue
                contexts, loops, skipping = [], [], []
                for a in ancestors(c):
                    if isinstance(a, (ast.ListComp, ast.GeneratorExp, ast.SetComp)):
                        for g in reversed(a.generators):
                            contexts.append((g.target, g.iter))
                            if g.ifs:
                                skipping.append(g.ifs[0])
                    elif isinstance(a, ast.For):
                        contexts.append((a.target, a.iter))
                        loops.append(a)
                    elif isinstance(a, ast.While):
                        found[pol].append(('und', 'while loop around the comparer call', where))
                roles = (_binding_role(c.args[0], contexts, p_auth, p_stud), _binding_role(c.args[1], contexts, p_auth, p_stud))
                want = (('A', 'whole'), ('S', 'whole')) if pol else (('A', 'elem'), ('S', 'elem'))
                if roles == want:
                    found[pol].append(('ok', '', where))
                elif roles == (want[1], want[0]):
                    found[pol].append(('swap', 'the first two arguments are swapped: the student\'s value is passed where the author\'s is '
                                       'expected and vice versa; ' + WHY_SWAP, where))
                elif None not in roles and roles[0][0] == roles[1][0]:
                    found[pol].append(('same', 'both arguments derive from the %s side: the other side is not compared at all'
                                       % ('author\'s' if roles[0][0] == 'A' else 'student\'s'), where))
                elif None not in roles and not pol and roles == (('A', 'whole'), ('S', 'whole')):
                    found[pol].append(('noloop', 'the per-sample comparison receives the whole lists once instead of running once per '
                                       'sample', where))
                else:
                    found[pol].append(('und', 'arguments %s / %s not traced to the parameters' % (short(c.args[0]), short(c.args[1])), where))
                if not (isinstance(c.args[2], ast.Name) and c.args[2].id == p_utils):
                    found[pol].append(('und', 'third argument is not the utils parameter: %s' % short(c.args[2]), where))
                if not pol:
                    for lp in loops:
                        ex = [e for e in lib.loop_has_early_exit(lp) if not isinstance(e, ast.Raise)]
                        if ex:
                            found[pol].append(('exit', 'the loop over the samples is left early (`%s`): later samples are never compared'
                                               % short(ex[0]), where))
                    for sk in skipping:
                        found[pol].append(('exit', 'the comprehension skips samples under `%s`' % short(sk), where))
                # collection: the result must end up in the returned list
                collected = False
                if root is p.leaf.expr:
                    collected = True
                elif leaf_name:
                    holder = {leaf_name}
                    for n in ast.walk(root):
                        if isinstance(n, ast.Assign) and any(x is c for x in ast.walk(n.value)):
                            for t in n.targets:
                                if isinstance(t, ast.Name):
                                    if t.id == leaf_name:
                                        collected = True
                                    holder.add(t.id)
                    for n in ast.walk(root):
                        if isinstance(n, ast.Call) and isinstance(n.func, ast.Attribute) and n.func.attr in ('append', 'extend') \
                                and fl.name_of(n.func.value) == leaf_name and n.args:
                            arg = n.args[0]
                            if any(x is c for x in ast.walk(arg)) or (lib.names_in(arg) & (holder - {leaf_name})):
                                collected = True
                if not collected:
                    found[pol].append(('und', 'cannot see the comparer result reach the returned list', where))
    for pol in (True, False):
        tag = 'correlated' if pol else 'per sample'
        construct = 'MathMixin.compare_evaluations: comparer(...) [%s]' % tag
        items = found[pol]
        defin = [i for i in items if i[0] in ('swap', 'same', 'noloop')]
        und = [i for i in items if i[0] in ('und', 'none')]
        if defin:
            r.violation(construct, defin[0][1], defin[0][2], expected='(author, student)')
        elif und or not items:
            r.undecided(construct, und[0][1] if und else 'no path analysed', und[0][2] if und else fi.loc)
        else:
            r.ok(construct, 'the first two arguments = (author, student), %s' % ('whole lists' if pol else 'sample by sample over zip(...)'),
                 items[0][2])
        if not pol:
            ex = [i for i in items if i[0] == 'exit']
            if ex:
                r.violation(construct + ' loop', ex[0][1], ex[0][2])
            elif defin or und or not items:
                r.undecided(construct + ' loop', 'iteration not analysed (see the comparer call)', fi.loc)
            else:
                r.ok(construct + ' loop', 'every (author, student) pair of zip(...) is compared', items[0][2])


def _dict_of_method(idx, ci, after_q, mname, depth=4):
    """{key: (value expr, defining FuncInfo)} of a method that returns a dict built from a literal, optionally extended
    from `super().<same method>()` by `d[k] = v` / `d.update({...})`; resolved for an instance of class ci."""
    mfi = idx.lookup(ci, mname) if after_q is None else idx.lookup_after(ci, after_q, mname)
    if mfi is None or depth <= 0:
        return None
    rets = lib.returns_of(mfi.node)
    if len(rets) != 1:
        return None

    def of_expr(e):
        if isinstance(e, ast.Dict) and all(isinstance(k, ast.Constant) and isinstance(k.value, str) for k in e.keys):
            return {k.value: (v, mfi) for k, v in zip(e.keys, e.values)}
        if isinstance(e, ast.Call) and nf.callee_name(e) == 'dict' and not e.args and all(k.arg for k in e.keywords):
            return {k.arg: (k.value, mfi) for k in e.keywords}
        if isinstance(e, ast.Call) and isinstance(e.func, ast.Attribute) and e.func.attr == mname and isinstance(e.func.value, ast.Call) \
                and nf.callee_name(e.func.value) == 'super':
            return _dict_of_method(idx, ci, mfi.cls.qualname if mfi.cls else None, mname, depth - 1)
        return None
    v = rets[0].value
    if not isinstance(v, ast.Name):
        return of_expr(v)
    out = None
    for n in mfi.node.body:
        if isinstance(n, ast.Assign) and len(n.targets) == 1 and fl.name_of(n.targets[0]) == v.id:
            out = of_expr(n.value)
            if out is None:
                return None
            out = dict(out)
        elif isinstance(n, ast.Assign) and len(n.targets) == 1 and isinstance(n.targets[0], ast.Subscript) \
                and fl.name_of(n.targets[0].value) == v.id and out is not None and isinstance(lib.subscript_key(n.targets[0]), str):
            out[lib.subscript_key(n.targets[0])] = (n.value, mfi)
        elif isinstance(n, ast.Expr) and isinstance(n.value, ast.Call) and isinstance(n.value.func, ast.Attribute) \
                and n.value.func.attr == 'update' and fl.name_of(n.value.func.value) == v.id and out is not None \
                and len(n.value.args) == 1 and of_expr(n.value.args[0]) is not None:
            out.update(of_expr(n.value.args[0]))
    return out


def _call_keywords(idx, ci, fi, call, positional=()):
    """Keyword view of a call: explicit keywords, positional arguments by the given names, and `**self.helper()` /
    `**helper_result` resolved through the class of the receiver.  {name: (value expr, FuncInfo in which it is written)}"""
    out = {}
    for name, a in zip(positional, call.args):
        out[name] = (a, fi)
    for k in call.keywords:
        if k.arg is not None:
            out[k.arg] = (k.value, fi)
        else:
            v = lib.inline_locals(k.value, fi.node)
            if isinstance(v, ast.Call) and isinstance(v.func, ast.Attribute) and fl.name_of(v.func.value) == fi.params[0] and not v.args:
                d = _dict_of_method(idx, ci, None, v.func.attr)
                if d:
                    out.update(d)
            elif isinstance(v, ast.Dict) and all(isinstance(x, ast.Constant) for x in v.keys):
                out.update({x.value: (y, fi) for x, y in zip(v.keys, v.values)})
    return out


def d2_roles(ctx, idx):
    r = ctx.rule('D2.ROLE', 'author/student roles are preserved at every hop down to within_tolerance(x=author, y=student)',
                 floor=22)
    with r:
        # hop 1: gen_evaluations returns (author evaluations, student evaluations, ...)
        for q in (FGC, IGC, SGC):
            fi = idx.func(q + '.gen_evaluations')
            author, student = _gen_eval_roots(fi)
            prov = fl.Prov(fi.node, roots=[author, student])
            rets = lib.returns_of(fi.node)
            if not rets:
                raise AnalysisError('%s has no return' % fi.qualname)
            for ret in rets:
                v = ret.value
                if not (isinstance(v, ast.Tuple) and len(v.elts) >= 2):
                    r.undecided(fi.qualname + ': return', 'does not return a tuple literal: %s' % short(ret), lib.loc(fi, ret))
                    continue
                _check_pair(r, fi.qualname + ': return', lib.loc(fi, ret),
                            _role_of(prov, v.elts[0], author, student), _role_of(prov, v.elts[1], author, student),
                            'the first two returned lists', WHY_SWAP)
        # hop 2: raw_check hands (author evals, student evals, comparer, utils) to compare_evaluations
        for q, default_cmp in ((FGC, None), (SGB, 'equality_comparer')):
            fi = idx.func(q + '.raw_check')
            gcall = lib.one_call(fi, 'gen_evaluations')
            st = enclosing_stmt(gcall)
            if not (isinstance(st, ast.Assign) and st.value is gcall and len(st.targets) == 1
                    and isinstance(st.targets[0], (ast.Tuple, ast.List))
                    and all(isinstance(e, ast.Name) for e in st.targets[0].elts) and len(st.targets[0].elts) >= 2):
                raise AnalysisError('%s: result of gen_evaluations is not unpacked into names' % fi.qualname)
            names = [e.id for e in st.targets[0].elts]
            ccall = lib.one_call(fi, 'compare_evaluations')
            if len(ccall.args) < 4 or ccall.keywords:
                raise AnalysisError('%s: compare_evaluations call shape not recognised' % fi.qualname)

            def role(e):
                if isinstance(e, ast.Name) and e.id in names:
                    return {0: 'author', 1: 'student'}.get(names.index(e.id), 'none')
                return 'none'
            _check_pair(r, fi.qualname + ': compare_evaluations(...)', lib.loc(fi, ccall), role(ccall.args[0]), role(ccall.args[1]),
                        'the first two arguments', WHY_SWAP)
            if not lib.dominated(fi, [gcall], [ccall]):
                r.violation(fi.qualname + ': compare_evaluations(...)', 'comparison can run before the evaluations are generated',
                            lib.loc(fi, ccall))
            u = ccall.args[3]
            u_ok = (isinstance(u, ast.Call) and nf.callee_name(u) == 'get_comparer_utils') or \
                   (isinstance(u, ast.Attribute) and u.attr == 'comparer_utils')
            if u_ok:
                r.ok(fi.qualname + ': utils', 'the grader\'s own comparer utils (configured tolerance)', lib.loc(fi, ccall))
            else:
                r.undecided(fi.qualname + ': utils', 'utils argument not recognised: %s' % short(u), lib.loc(fi, ccall))
            c = ccall.args[2]
            if default_cmp:
                if isinstance(c, ast.Name) and c.id == default_cmp and _is_equality_comparer(idx, fi.module, c.id):
                    r.ok(fi.qualname + ': comparer', 'equality_comparer', lib.loc(fi, ccall))
                else:
                    r.undecided(fi.qualname + ': comparer', 'comparer argument not recognised: %s' % short(c), lib.loc(fi, ccall))
            else:
                c2 = lib.inline_locals(c, fi.node)
                if nf.match("answer['expect']['comparer']", c2) is not None:
                    r.ok(fi.qualname + ': comparer', "answer['expect']['comparer']", lib.loc(fi, ccall))
                else:
                    r.undecided(fi.qualname + ': comparer', 'comparer argument not recognised: %s' % short(c2), lib.loc(fi, ccall))
        # hop 3: compare_evaluations -> comparer(author, student, utils); every form of iteration is seen alike
        fi = idx.func(MM + '.compare_evaluations')
        if len(fi.params) != 5:
            raise AnalysisError('compare_evaluations: unexpected parameter list %s' % fi.params)
        _hop3(r, idx, fi)
        # hop 4: EqualityComparer.__call__ -> utils.within_tolerance(expected, student)
        fi = idx.func(EQC + '.__call__')
        if len(fi.params) != 4:
            raise AnalysisError('EqualityComparer.__call__: unexpected parameters %s' % fi.params)
        _, p_auth, p_stud, p_utils = fi.params
        prov = fl.Prov(fi.node, roots=[p_auth, p_stud])
        wcalls = [c for c in lib.calls_named(fi.node, 'within_tolerance')]
        if not wcalls:
            raise AnalysisError('EqualityComparer.__call__: no call of utils.within_tolerance')
        for c in wcalls:
            construct = 'EqualityComparer.__call__: utils.within_tolerance(...)'
            recv_ok = isinstance(c.func, ast.Attribute) and isinstance(c.func.value, ast.Name) and c.func.value.id == p_utils
            if not recv_ok or len(c.args) != 2 or c.keywords:
                r.undecided(construct, 'call shape not recognised: %s' % short(c), lib.loc(fi, c))
                continue
            _check_pair(r, construct, lib.loc(fi, c), _role_of(prov, c.args[0], p_auth, p_stud),
                        _role_of(prov, c.args[1], p_auth, p_stud), 'the two arguments',
                        "a percentage tolerance becomes relative to the student's value")
            ca = prov.callees_in_chain(c.args[0]) - {'isinstance'}
            cb = prov.callees_in_chain(c.args[1]) - {'isinstance'}
            if ca == cb:
                r.ok(construct + ' [transform]', 'the same transform chain %s on both sides' % sorted(ca), lib.loc(fi, c))
            elif ca and cb:
                r.undecided(construct + ' [transform]', 'the two sides are prepared by different calls (%s vs %s)' % (sorted(ca), sorted(cb)),
                            lib.loc(fi, c))
            else:
                r.violation(construct + ' [transform]', 'the two sides are prepared differently (%s vs %s): the configured '
                            'transform is applied to one side only' % (sorted(ca), sorted(cb)), lib.loc(fi, c))
            rets = [x for x in lib.returns_of(fi.node)]
            if not any(x.value is c for x in rets):
                r2 = nf.classify('not _X', rets[0].value) if rets else None
                if rets and isinstance(rets[0].value, ast.UnaryOp) and isinstance(rets[0].value.op, ast.Not):
                    r.violation(construct + ' [result]', 'the comparer returns the negation of within_tolerance', lib.loc(fi, rets[0]))
                else:
                    r.undecided(construct + ' [result]', 'the result of within_tolerance is not returned directly', lib.loc(fi, c))
        # hop 5: get_comparer_utils -> within_tolerance(x, y, config['tolerance'])
        for q in (MM, MGC):
            ci_q = idx.cls(q)
            fi = idx.lookup(ci_q, 'get_comparer_utils')
            if fi is None:
                raise AnalysisError('anchor vanished: %s has no get_comparer_utils' % q)
            short_q = q.split('.')[-1] + '.get_comparer_utils'
            rets = lib.returns_of(fi.node)
            if len(rets) != 1 or not isinstance(rets[0].value, ast.Call):
                raise AnalysisError('%s: expected a single `return self.Utils(...)`' % short_q)
            ucall = rets[0].value
            kws = _call_keywords(idx, ci_q, fi, ucall, ('tolerance', 'within_tolerance'))
            wt, wt_owner = kws.get('within_tolerance', (None, fi))
            tol, _ = kws.get('tolerance', (None, fi))
            if not lib.is_config(tol, 'tolerance'):
                k = nf.config_key(tol) if tol is not None else None
                if k is not None:
                    r.violation(short_q + ': utils.tolerance', "utils.tolerance is config['%s'], not config['tolerance']" % k,
                                lib.loc(fi, ucall))
                else:
                    r.undecided(short_q + ': utils.tolerance', 'not recognised: %s' % short(tol), lib.loc(fi, ucall))
            if not isinstance(wt, ast.Name) or not idx.has_func(wt_owner.qualname + '.<locals>.' + wt.id):
                r.undecided(short_q + ': utils.within_tolerance', 'is not a locally defined function: %s' % short(wt), lib.loc(fi, ucall))
                continue
            inner = idx.func(wt_owner.qualname + '.<locals>.' + wt.id)
            if len(inner.params) != 2:
                r.undecided(short_q + ': ' + wt.id, 'expected two parameters (x, y)', inner.loc)
                continue
            ipaths = nf.decision_paths(inner.node.body)
            if len(ipaths) != 1 or ipaths[0].leaf.kind != 'ret' or not isinstance(ipaths[0].leaf.expr, ast.Call):
                r.undecided(short_q + ': ' + wt.id, 'body is not a single `return within_tolerance(...)`', inner.loc)
                continue
            call = [c for c in walk_own(inner.node) if isinstance(c, ast.Call) and nf.callee_name(c) == 'within_tolerance']
            call = call[0] if call else None
            leafcall = ipaths[0].leaf.expr
            targets, how = idx.resolve_call(inner, call) if call is not None else ([], 'unresolved')
            if not (len(targets) == 1 and getattr(targets[0], 'qualname', None) == WT):
                r.undecided(short_q + ': ' + wt.id, 'does not resolve to calc.mathfuncs.within_tolerance: %s' % short(leafcall), inner.loc)
                continue
            a0 = lib.get_kw(leafcall, 'x', 0)
            a1 = lib.get_kw(leafcall, 'y', 1)
            a2 = lib.get_kw(leafcall, 'tolerance', 2)
            x, y = inner.params
            where = lib.loc(inner, call)
            if fl.name_of(a0) == x and fl.name_of(a1) == y:
                r.ok(short_q + ': within_tolerance(x, y, ...)', 'forwards (x, y) in order', where)
            elif fl.name_of(a0) == y and fl.name_of(a1) == x:
                r.violation(short_q + ': within_tolerance(x, y, ...)', 'forwards (y, x): ' + WHY_SWAP.split(' and ')[0], where,
                            expected='within_tolerance(%s, %s, ...)' % (x, y), found=unparse(leafcall))
            elif fl.name_of(a0) in (x, y) and fl.name_of(a0) == fl.name_of(a1):
                r.violation(short_q + ': within_tolerance(x, y, ...)', 'compares a value with itself: every answer passes', where)
            else:
                r.undecided(short_q + ': within_tolerance(x, y, ...)', 'arguments not recognised: %s' % short(leafcall), where)
            if lib.is_config(a2, 'tolerance'):
                r.ok(short_q + ': tolerance argument', "self.config['tolerance']", where)
            elif a2 is not None and nf.config_key(a2) is not None:
                r.violation(short_q + ': tolerance argument', "the tolerance handed to within_tolerance is config['%s']"
                            % nf.config_key(a2), where, expected="self.config['tolerance']")
            elif isinstance(a2, ast.Constant):
                r.violation(short_q + ': tolerance argument', 'the configured tolerance is ignored: constant %r is used'
                            % a2.value, where, expected="self.config['tolerance']")
            else:
                r.undecided(short_q + ': tolerance argument', 'not recognised: %s' % short(a2), where)
        # default comparer
        for q in (FGC, NGC, MGC):
            ci = idx.cls(q)
            v = ci.attrs.get('default_comparer')
            name = q.split('.')[-1]
            if v is None:
                owner, inherited = idx.lookup_attr(ci, 'default_comparer')
                if owner is not None:
                    r.violation(name + '.default_comparer', '%s no longer defines its own default_comparer: the attribute now resolves '
                                'through the MRO to %s.default_comparer, and set_default_comparer writes `cls.default_comparer` on ONE class '
                                '-- so %s.set_default_comparer(...) silently changes the default comparison of every %s as well (the '
                                'documented per-class default is lost)' % (name, owner.name, owner.name, name), ci.loc,
                                expected='default_comparer = staticmethod(equality_comparer) in the body of %s' % name)
                else:
                    r.undecided(name + '.default_comparer', 'class attribute vanished', ci.loc)
                continue
            b = nf.match('staticmethod(_C)', v)
            if b is not None and isinstance(b['_C'], ast.Name) and _is_equality_comparer(idx, ci.module, b['_C'].id):
                r.ok(name + '.default_comparer', 'equality_comparer = EqualityComparer()', lib.mloc(ci.module, v))
            else:
                r.undecided(name + '.default_comparer', 'not staticmethod(equality_comparer): %s' % short(v), lib.mloc(ci.module, v))
        fi = idx.func(FGC + '.validate_expect')
        found = False
        for d in [n for n in walk_own(fi.node) if isinstance(n, ast.Dict)]:
            keys = lib.dict_literal_keys(d)
            if 'comparer' in keys and 'comparer_params' in keys:
                found = True
                cv = d.values[keys.index('comparer')]
                pv = d.values[keys.index('comparer_params')]
                guard = any(nf.match('isinstance(%s, str)' % fi.params[-1], a.test) is not None and br == 'body'
                            for a, br in fl.if_chain_containing(d, fi.node))
                ok = nf.match('self.default_comparer', cv) is not None and nf.match('[%s]' % fi.params[-1], pv) is not None and guard
                if ok:
                    r.ok('FormulaGrader.validate_expect: string answers', "{'comparer': self.default_comparer, 'comparer_params': [expect]}",
                         lib.loc(fi, d))
                else:
                    r.undecided('FormulaGrader.validate_expect: string answers', 'not recognised: %s' % short(d), lib.loc(fi, d))
        if not found:
            r.undecided('FormulaGrader.validate_expect: string answers', 'dict literal with comparer/comparer_params vanished', fi.loc)


def _is_equality_comparer(idx, module, name):
    kind, obj = idx.resolve_name(module, name)
    if kind != 'value':
        return False
    mod, nm = obj
    vals = mod.assigns.get(nm, [])
    if len(vals) != 1 or not isinstance(vals[0], ast.Call) or vals[0].args or vals[0].keywords:
        return False
    k2, o2 = idx.resolve_name(mod, nf.callee_name(vals[0]))
    return k2 == 'class' and o2.qualname == EQC


# ----------------------------------------------------------------------------- D3
OK_VALUES = (True, False, 'partial')


def _failure_predicate(test, var):
    """Which of the three ok values make `test` true, the record being opaque apart from its 'ok' entry."""
    out = {}
    for v in OK_VALUES:
        out[v] = bool(mev.ev(test, {var: {'ok': v, 'grade_decimal': {True: 1, False: 0, 'partial': 0.5}[v]}}))
    return out


def _filter_over(expr, p_res):
    """(element variable, predicate) if expr is `[r for r in <results> if P(r)]` / generator / filter-free -> None."""
    if isinstance(expr, (ast.ListComp, ast.GeneratorExp)) and len(expr.generators) == 1 and isinstance(expr.generators[0].target, ast.Name):
        g = expr.generators[0]
        seq, _ = fl.unwrap_seq(g.iter)
        if fl.name_of(seq) == p_res and fl.name_of(expr.elt) == g.target.id and len(g.ifs) == 1:
            return g.target.id, g.ifs[0]
    return None


def d3_consolidate(ctx, idx):
    r = ctx.rule('D3.CONSOLIDATE', 'one failure per result whose ok is not True; failing result returned iff '
                 'len(results) == 1 or failures > failable_evals; otherwise the pruned answer', floor=7)
    with r:
        fi = idx.func(MM + '.consolidate_results')
        C = 'MathMixin.consolidate_results'
        ps = [p for p in fi.params if p not in ('self', 'cls')]
        if len(ps) != 3:
            raise AnalysisError('consolidate_results: unexpected parameters %s' % fi.params)
        p_res, p_ans, p_fail = ps
        env = fl.flat_env(fi.node)
        loops = [l for l in lib.loops_of(fi.node)]
        form = None
        # ---------------- recognise the iteration construct
        if len(loops) == 1 and isinstance(loops[0], ast.For):
            loop = loops[0]
            seq, start = fl.unwrap_seq(loop.iter)
            seq_x = fl.expand(seq, env) if isinstance(seq, ast.Name) and seq.id != p_res else seq
            flt = _filter_over(seq_x, p_res)
            if fl.name_of(seq) == p_res and start is None and isinstance(loop.target, ast.Name):
                form = 'count'
            elif flt is not None and start is not None and isinstance(loop.target, (ast.Tuple, ast.List)) and len(loop.target.elts) == 2 \
                    and all(isinstance(e, ast.Name) for e in loop.target.elts):
                form = 'enumerate'
            elif isinstance(seq, ast.Subscript) and fl.mentions(seq, p_res):
                r.violation(C + ': loop', 'only part of the results is examined (`%s`): failures in the other samples are not '
                            'counted' % short(seq), lib.loc(fi, loop), expected='for result in %s' % p_res)
                return
        elif not loops:
            form = 'filter'
        if form is None:
            raise AnalysisError('consolidate_results: iteration over the results not recognised (%d loops)' % len(loops))
        tail = [x for x in lib.returns_of(fi.node) if not loops or not any(x is n for n in ast.walk(loops[0]))]
        try:
            if form == 'count':
                decide, fail_ret, where_t = _d3_count_form(r, idx, fi, C, loop, p_res, p_fail)
            elif form == 'enumerate':
                decide, fail_ret, where_t = _d3_enumerate_form(r, fi, C, loop, flt, start, p_res, p_fail)
            else:
                decide, fail_ret, where_t, tail = _d3_filter_form(r, fi, C, env, p_res, p_fail)
        except mev.Unsupported as e:
            r.undecided(C + ': threshold', 'a condition is outside the supported guard evaluation (%s)' % e, fi.loc)
            return
        if decide is None:
            return
        # ---------------- the decision over the count classes: n = len(results), k = failures, f = failable_evals
        wrong = None
        try:
            for n in (1, 2, 3):
                for k in range(0, n + 1):
                    for f in (0, 1, 2):
                        got = decide(n, k, f)
                        want = (n == 1 and k >= 1) or k > f
                        if got != want and wrong is None:
                            wrong = (n, k, f, got)
        except mev.Unsupported as e:
            r.undecided(C + ': threshold', 'the return condition is outside the supported guard evaluation (%s)' % e, where_t)
            wrong = 'und'
        if wrong is None:
            r.ok(C + ': threshold', 'failing iff (one sample and it fails) or failures > failable_evals, on all classes of '
                 '(len(results) = 1 | > 1, failures <, =, > failable_evals)', where_t)
        elif wrong != 'und':
            n, k, f, got = wrong
            r.violation(C + ': threshold', 'for %s with %d failing and failable_evals = %d the response is %s: %s'
                        % ('a single sample' if n == 1 else '%d samples' % n, k, f,
                           'reported as failing although the failures are within failable_evals' if got else 'NOT reported as failing',
                           'a single-sample grader must tolerate no failure, whatever failable_evals says' if n == 1 and not got else
                           ('the verdict must be wrong iff #failed > failable_evals (strict), or the single sample failed')),
                        where_t, expected='len(results) == 1 or failures > failable_evals')
        # ---------------- what is handed back
        if fail_ret is True:
            r.ok(C + ': failing verdict', 'returns a failing result itself', where_t)
        elif fail_ret:
            r.violation(C + ': failing verdict', fail_ret, where_t)
        else:
            r.undecided(C + ': failing verdict', 'returned value not recognised', where_t)
        if len(tail) != 1:
            raise AnalysisError('consolidate_results: expected one return for the agreeing case')
        if _passing_record(r, idx, fi, C, tail[0], p_ans):
            return
        prov = fl.Prov(fi.node, roots=[p_res, p_ans])
        pr = prov.of(tail[0].value)
        if pr == {p_ans}:
            v = fl.expand(tail[0].value, env)
            keys = nf.const_value(v.generators[0].iter) if isinstance(v, ast.DictComp) and len(v.generators) == 1 else None
            src = v.value.value if isinstance(v, ast.DictComp) and isinstance(v.value, ast.Subscript) else None
            src_ok = False
            if isinstance(src, ast.Name) and src.id == p_ans:
                src_ok = True
            elif isinstance(src, ast.IfExp):
                t = nf.canon(src.test)
                if nf.match('%s is None' % p_ans, t) is not None and isinstance(src.body, ast.Dict) and fl.name_of(src.orelse) == p_ans:
                    src_ok = True
                elif nf.match('%s is not None' % p_ans, t) is not None and isinstance(src.orelse, ast.Dict) and fl.name_of(src.body) == p_ans:
                    src_ok = True
            if keys is not None and set(keys) == {'ok', 'grade_decimal', 'msg'} and src_ok:
                r.ok(C + ': passing verdict', "the answer pruned to ok/grade_decimal/msg", lib.loc(fi, tail[0]))
            elif isinstance(v, ast.Name) and v.id == p_ans:
                r.ok(C + ': passing verdict', 'the answer', lib.loc(fi, tail[0]))
            else:
                r.undecided(C + ': passing verdict', 'not recognised: %s' % short(v), lib.loc(fi, tail[0]))
        elif p_res in pr:
            r.violation(C + ': passing verdict', 'a comparer result is returned instead of the answer\'s credit/message', lib.loc(fi, tail[0]))
        else:
            r.undecided(C + ': passing verdict', 'returned value not recognised: %s' % short(tail[0]), lib.loc(fi, tail[0]))


def _dict_literal_of(idx, fi, e):
    """key -> value expr if e is a dict literal, dict(<such>), <such>.copy(), or a class / module constant bound to one."""
    if isinstance(e, ast.Dict) and all(isinstance(k, ast.Constant) for k in e.keys):
        return {k.value: v for k, v in zip(e.keys, e.values)}
    if isinstance(e, ast.Call) and nf.callee_name(e) == 'dict' and len(e.args) == 1 and not e.keywords:
        return _dict_literal_of(idx, fi, e.args[0])
    if isinstance(e, ast.Call) and nf.callee_name(e) == 'dict' and not e.args and all(k.arg for k in e.keywords):
        return {k.arg: k.value for k in e.keywords}
    if isinstance(e, ast.Call) and isinstance(e.func, ast.Attribute) and e.func.attr == 'copy' and not e.args:
        return _dict_literal_of(idx, fi, e.func.value)
    if isinstance(e, ast.Attribute) and isinstance(e.value, ast.Name):
        owner = None
        if fi.cls is not None and e.value.id in ('self', 'cls'):
            owner = fi.cls
        else:
            kind, obj = idx.resolve_name(fi.module, e.value.id)
            owner = obj if kind == 'class' else None
        if owner is not None:
            k, v = idx.lookup_attr(owner, e.attr)
            if v is not None:
                return _dict_literal_of(idx, fi, v)
    if isinstance(e, ast.Name) and len(fi.module.assigns.get(e.id, [])) == 1:
        return _dict_literal_of(idx, fi, fi.module.assigns[e.id][0])
    return None


def _passing_record(r, idx, fi, C, ret, p_ans):
    """Resolve the record returned for an agreeing response key by key, for the two classes of the answer (None / given),
    through dict(...) of a class constant, dict comprehensions over a key list, `.update(k=v)` and `rec[k] = v`.
    Returns False (nothing recorded) when the construction is not of this kind."""
    if not isinstance(ret.value, ast.Name):
        return False
    rec = ret.value.id
    paths = [p for p in nf.decision_paths(fi.node.body, keep_locals=(rec,)) if p.leaf.stmt is ret]
    if not paths:
        return False
    KEYS = ('ok', 'grade_decimal', 'msg')
    given = {'ok': object(), 'grade_decimal': object(), 'msg': object()}
    records = {}
    for kind, aval in (('none', None), ('given', given)):
        try:
            taken = [p for p in paths if all(mev.ev(g, {p_ans: aval}) for g in p.guards if fl.mentions(g, p_ans))]
        except mev.Unsupported:
            return False
        if len(taken) != 1:
            return False
        cur = None
        for e in taken[0].effects:
            if isinstance(e, ast.Assign) and len(e.targets) == 1 and fl.name_of(e.targets[0]) == rec:
                v = e.value
                if isinstance(v, ast.DictComp) and len(v.generators) == 1 and isinstance(v.generators[0].target, ast.Name) \
                        and isinstance(nf.const_value(v.generators[0].iter, None), (list, tuple)) and isinstance(v.value, ast.Subscript) \
                        and fl.name_of(v.value.slice) == v.generators[0].target.id and fl.name_of(v.key) == v.generators[0].target.id:
                    src = v.value.value
                    hops = 0
                    while isinstance(src, ast.IfExp) and hops < 3:
                        try:
                            src = src.body if mev.ev(src.test, {p_ans: aval}) else src.orelse
                        except mev.Unsupported:
                            return False
                        hops += 1
                    lit = _dict_literal_of(idx, fi, src)
                    cur = {}
                    for k in nf.const_value(v.generators[0].iter):
                        cur[k] = lit.get(k) if lit is not None else ast.Subscript(value=src, slice=ast.Constant(value=k), ctx=ast.Load())
                else:
                    cur = _dict_literal_of(idx, fi, v)
                    cur = dict(cur) if cur is not None else None
            elif cur is not None and isinstance(e, ast.Assign) and len(e.targets) == 1 and isinstance(e.targets[0], ast.Subscript) \
                    and fl.name_of(e.targets[0].value) == rec and isinstance(lib.subscript_key(e.targets[0]), str):
                cur[lib.subscript_key(e.targets[0])] = e.value
            elif cur is not None and isinstance(e, ast.Expr) and isinstance(e.value, ast.Call) and isinstance(e.value.func, ast.Attribute) \
                    and e.value.func.attr == 'update' and fl.name_of(e.value.func.value) == rec:
                c = e.value
                if c.args:
                    lit = _dict_literal_of(idx, fi, c.args[0])
                    if lit is None:
                        return False
                    cur.update(lit)
                cur.update({k.arg: k.value for k in c.keywords if k.arg})
        if cur is None:
            return False
        records[kind] = cur
    where = lib.loc(fi, ret)
    problems = []
    for k in KEYS:
        g = records['given'].get(k)
        if g is None:
            problems.append("key %r is missing from the record" % k)
        elif not (isinstance(g, ast.Subscript) and fl.name_of(g.value) == p_ans and lib.subscript_key(g) == k):
            lit = nf.const_value(g, '<expr>')
            problems.append("%r is `%s`, not the answer's own %s%s" % (
                k, short(g, 40), k, {'ok': ": a match with a partial-credit answer (ok='partial', grade 0.5) is returned with ok=%r next to "
                                            "its grade" % (lit,),
                                     'grade_decimal': ': the credit of the matched answer is not what the response earns',
                                     'msg': ": the answer's feedback message is lost"}[k]))
    want_none = {'ok': True, 'grade_decimal': 1, 'msg': ''}
    for k in KEYS:
        n_ = records['none'].get(k)
        v = nf.const_value(n_, '<expr>') if n_ is not None else '<missing>'
        if not (v == want_none[k] and type(v) is type(want_none[k]) or (k == 'grade_decimal' and v in (1, 1.0) and not isinstance(v, bool))):
            problems.append('without an answer (None) %r is %r instead of %r' % (k, v, want_none[k]))
    extra = set(records['given']) - set(KEYS)
    if problems:
        r.violation(C + ': passing verdict', 'the record returned for an agreeing response: ' + '; '.join(problems), where,
                    expected="{'ok': answer['ok'], 'grade_decimal': answer['grade_decimal'], 'msg': answer['msg']}")
    elif extra:
        r.undecided(C + ': passing verdict', 'extra keys %s in the returned record' % sorted(extra), where)
    else:
        r.ok(C + ': passing verdict', "key by key the answer's ok / grade_decimal / msg (True / 1 / '' without an answer)", where)
    return True


def _opaque(n):
    return [object() for _ in range(n)]


def _report_predicate(r, C, test, var, where):
    tab = _failure_predicate(test, var)
    if tab == {True: False, False: True, 'partial': True}:
        r.ok(C + ': failure test', "a result fails iff its ok is not True ('partial' fails), over ok in {True, False, 'partial'}", where)
    elif tab == {True: False, False: True, 'partial': False}:
        r.violation(C + ': failure test', "`%s` counts only ok == False as a failure: a sample graded 'partial' passes as if it agreed, so a "
                    "partially wrong formula earns the answer's full credit" % unparse(test), where,
                    expected="%s['ok'] != True" % var, found=unparse(test))
    else:
        r.violation(C + ': failure test', '`%s` treats ok values %s as failures, expected [False, \'partial\']'
                    % (unparse(test), [k for k in OK_VALUES if tab[k]]), where, expected="%s['ok'] != True" % var, found=unparse(test))


def _d3_count_form(r, idx, fi, C, loop, p_res, p_fail):
    rv = loop.target.id
    r.ok(C + ': loop', 'iterates over every result', lib.loc(fi, loop))
    others = [e for e in lib.loop_has_early_exit(loop) if not isinstance(e, ast.Return)]
    for e in others:
        r.violation(C + ': loop', '`%s` leaves/skips the loop: later results are not examined' % short(e), lib.loc(fi, e))
    tests = [n for n in ast.walk(loop) if isinstance(n, ast.If) and any(nf.match("%s['ok']" % rv, x) is not None for x in ast.walk(n.test))]
    if len(tests) != 1:
        raise AnalysisError("consolidate_results: expected one test of %s['ok'] in the loop, found %d" % (rv, len(tests)))
    ft = tests[0]
    _report_predicate(r, C, ft.test, rv, lib.loc(fi, ft))
    incs = []
    for n in ast.walk(loop):
        if isinstance(n, ast.AugAssign) and isinstance(n.target, ast.Name):
            incs.append((n, n.target.id, ast.BinOp(left=ast.Name(id=n.target.id, ctx=ast.Load()), op=n.op, right=n.value)))
        elif isinstance(n, ast.Assign) and len(n.targets) == 1 and isinstance(n.targets[0], ast.Name) \
                and fl.mentions(n.value, n.targets[0].id):
            incs.append((n, n.targets[0].id, n.value))
    if len(incs) != 1:
        if not incs:
            fl.absent(r, idx, C + ': counter', 'failures are no longer counted inside the loop', lib.loc(fi, loop))
            return None, None, None
        raise AnalysisError('consolidate_results: several accumulators in the loop')
    inc, cn, val = incs[0]
    res = nf.classify('%s + 1' % cn, val)
    in_fail = any(a is ft and br == 'body' for a, br in fl.if_chain_containing(inc, fi.node))
    if res == nf.MATCH and in_fail:
        r.ok(C + ': counter', 'incremented by one for every failing result', lib.loc(fi, inc))
    elif res == nf.MATCH:
        r.violation(C + ': counter', 'the failure counter is incremented outside the failure test: every sample counts as a failure '
                    'or none does', lib.loc(fi, inc))
    elif isinstance(res, tuple):
        r.violation(C + ': counter', res[1], lib.loc(fi, inc), expected='%s += 1' % cn, found=short(inc))
    else:
        r.undecided(C + ': counter', 'update not recognised: %s' % short(inc), lib.loc(fi, inc))
    inits = [v for v in lib.assigned_value(fi.node, cn) if not fl.mentions(v, cn)]
    c0 = nf.const_value(inits[0], None) if len(inits) == 1 else None
    if isinstance(c0, bool) or not isinstance(c0, int):
        r.undecided(C + ': counter start', 'initialisation not recognised', fi.loc)
        return None, None, None
    init_stmt = enclosing_stmt(inits[0])
    if not (lib.dominated(fi, [init_stmt], [loop.iter]) and fl.enclosing_loop(init_stmt, fi.node) is None):
        r.violation(C + ': counter start', 'the counter is (re)set inside or after the loop', lib.loc(fi, init_stmt))
        return None, None, None
    rets = [n for n in ast.walk(loop) if isinstance(n, ast.Return)]
    if len(rets) != 1:
        if not rets:
            r.violation(C + ': threshold', 'the loop never returns a failing result: every response obtains the answer\'s credit',
                        lib.loc(fi, loop))
            return None, None, None
        raise AnalysisError('consolidate_results: several returns inside the loop')
    ret = rets[0]
    chain = fl.if_chain_containing(ret, fi.node)
    if not any(a is ft and br == 'body' for a, br in chain):
        r.violation(C + ': threshold', 'the early return is not under the failure test: a passing result can be returned as the '
                    'verdict', lib.loc(fi, ret))
        return None, None, None
    inner = [(a, br) for a, br in chain if a is not ft]
    if any(br != 'body' for a, br in inner):
        r.undecided(C + ': threshold', 'guards of the early return not recognised', lib.loc(fi, ret))
        return None, None, None
    conds = [a.test for a, br in inner]
    # the counter value seen by the condition for the j-th failing result
    before = all(lib.dominated(fi, [inc], [a.test]) for a, br in inner) if inner else lib.dominated(fi, [inc], [ret])
    r.ok(C + ': counter start', 'starts at %d before the loop; %s the comparison' % (c0, 'incremented before' if before else
                                                                                   'incremented AFTER'), lib.loc(fi, init_stmt))

    def decide(n, k, f):
        for j in range(1, k + 1):
            e = {p_res: _opaque(n), cn: c0 + j - (0 if before else 1), p_fail: f}
            if all(mev.ev(c, e) for c in conds):
                return True
        return False
    fail_ret = True if fl.name_of(ret.value) == rv else None
    return decide, fail_ret, lib.loc(fi, inner[0][0]) if inner else lib.loc(fi, ret)


def _d3_enumerate_form(r, fi, C, loop, flt, start, p_res, p_fail):
    var, pred = flt
    num, item = [e.id for e in loop.target.elts]
    r.ok(C + ': loop', 'iterates over every result (filtered lazily, numbered by enumerate)', lib.loc(fi, loop))
    others = [e for e in lib.loop_has_early_exit(loop) if not isinstance(e, ast.Return)]
    for e in others:
        r.violation(C + ': loop', '`%s` leaves/skips the loop: later results are not examined' % short(e), lib.loc(fi, e))
    _report_predicate(r, C, pred, var, lib.loc(fi, pred))
    if not isinstance(start, int) or isinstance(start, bool):
        r.undecided(C + ': counter', 'enumerate start not a literal', lib.loc(fi, loop))
        return None, None, None
    r.ok(C + ': counter', 'enumerate numbers the failing results one by one', lib.loc(fi, loop))
    r.ok(C + ': counter start', 'enumerate(start=%d): the j-th failing result carries the number %d + j - 1' % (start, start), lib.loc(fi, loop))
    rets = [n for n in ast.walk(loop) if isinstance(n, ast.Return)]
    if len(rets) != 1:
        raise AnalysisError('consolidate_results: expected one return inside the loop')
    ret = rets[0]
    chain = fl.if_chain_containing(ret, fi.node)
    if any(br != 'body' for a, br in chain):
        r.undecided(C + ': threshold', 'guards of the early return not recognised', lib.loc(fi, ret))
        return None, None, None
    conds = [a.test for a, br in chain]

    def decide(n, k, f):
        for j in range(1, k + 1):
            e = {p_res: _opaque(n), num: start + j - 1, p_fail: f}
            if all(mev.ev(c, e) for c in conds):
                return True
        return False
    fail_ret = True if fl.name_of(ret.value) == item else None
    return decide, fail_ret, lib.loc(fi, chain[0][0]) if chain else lib.loc(fi, ret)


def _d3_filter_form(r, fi, C, env, p_res, p_fail):
    cands = [(k, _filter_over(v, p_res)) for k, v in env.items() if _filter_over(v, p_res) is not None]
    if len(cands) != 1:
        raise AnalysisError('consolidate_results: no loop and %d filtered views of the results' % len(cands))
    fname, (var, pred) = cands[0]
    where = lib.loc(fi, env[fname])
    r.ok(C + ': loop', 'every result is examined by the filter `%s`' % fname, where)
    _report_predicate(r, C, pred, var, where)
    r.ok(C + ': counter', 'len(%s) is the number of failing results' % fname, where)
    r.ok(C + ': counter start', 'no running counter', where)
    rets = lib.returns_of(fi.node)
    env_x = {k: v for k, v in env.items() if k != fname}
    fail_rets = [x for x in rets if fl.mentions(fl.expand(x.value, env_x), fname)]
    tail = [x for x in rets if not fl.mentions(fl.expand(x.value, env_x), fname)]
    if len(fail_rets) != 1:
        raise AnalysisError('consolidate_results: expected one return of a failing result, found %d' % len(fail_rets))
    ret = fail_rets[0]
    chain = fl.if_chain_containing(ret, fi.node)
    if not chain or any(br != 'body' for a, br in chain):
        if not chain:
            r.violation(C + ': threshold', 'a failing result is returned unconditionally', lib.loc(fi, ret))
        else:
            r.undecided(C + ': threshold', 'guards of the return not recognised', lib.loc(fi, ret))
        return None, None, None, tail
    conds = [a.test for a, br in chain]
    v = fl.expand(ret.value, env_x)
    index = v.slice if isinstance(v, ast.Subscript) and fl.name_of(v.value) == fname else None

    def decide(n, k, f):
        e = {p_res: _opaque(n), fname: _opaque(k), p_fail: f}
        hit = all(mev.ev(c, e) for c in conds)
        if hit and index is not None:
            i = mev.ev(index, e)
            if not isinstance(i, int) or not (-k <= i < k):
                raise mev.Unsupported('index %r out of range for %d failing results' % (i, k))
        return bool(hit)
    fail_ret = True if index is not None else None
    return decide, fail_ret, lib.loc(fi, chain[0][0]), tail


# ----------------------------------------------------------------------------- D4
EVAL_CALLEES = {'scoped_eval', 'eval_and_validate_comparer_params', 'evaluate_int', 'evaluate_sum', 'evaluator'}
SCOPE_WRITERS = {'update', 'setdefault', '__setitem__', 'clear', 'pop', 'popitem'}


def eval_sites(fi, author, student):
    """(author evaluation calls, student evaluation calls) of a gen_evaluations body: outermost calls of the
    reviewed evaluation functions whose arguments mention the author's / the student's parameter."""
    out = {}
    for role, root in (('author', author), ('student', student)):
        calls = fl.outermost([c for c in fl.calls_mentioning(fi.node, root)
                              if nf.callee_name(c) not in ('append', 'format', 'log', 'log_eval_info')])
        bad = [c for c in calls if nf.callee_name(c) not in EVAL_CALLEES]
        if bad:
            raise AnalysisError('%s: `%s` uses the %s\'s expressions through an unreviewed function'
                                % (fi.qualname, short(bad[0]), role))
        out[role] = calls
    return out['author'], out['student']


def scope_names(fi, calls, idx=None):
    """Names of the dict objects handed to the evaluation as variable / function scope."""
    names = set()
    for c in calls:
        cn = nf.callee_name(c)
        if cn in ('evaluate_int', 'evaluate_sum'):
            for k in ('varscope', 'funcscope'):
                v = lib.get_kw(c, k)
                if isinstance(v, ast.Name):
                    names.add((k, fl.resolve_scope_alias(idx, fi, v.id) if idx is not None else v.id))
                elif v is None:
                    names.add((k, '<default: empty scope>'))
                else:
                    names.add((k, '<new object: %s>' % short(v, 60)))
        elif cn in ('scoped_eval', 'eval_and_validate_comparer_params'):
            q = fi.qualname + '.<locals>.scoped_eval'
            inner = None
            for n in walk_own(fi.node):
                if isinstance(n, ast.FunctionDef) and n.name == 'scoped_eval':
                    inner = n
            if inner is None:
                raise AnalysisError('%s: nested scoped_eval vanished' % fi.qualname)
            a = inner.args
            pos = a.posonlyargs + a.args
            defaults = dict(zip([x.arg for x in pos[len(pos) - len(a.defaults):]], a.defaults))
            for k in ('variables', 'functions'):
                v = defaults.get(k)
                if isinstance(v, ast.Name):
                    names.add((k, v.id))
                else:
                    raise AnalysisError('%s: scoped_eval default for %s is not a plain name' % (fi.qualname, k))
            # explicit overrides at the call site would change the scope object
            if any(k.arg in ('variables', 'functions') for k in c.keywords) or (cn == 'scoped_eval' and len(c.args) > 1):
                raise AnalysisError('%s: `%s` overrides the evaluation scope' % (fi.qualname, short(c)))
        else:
            raise AnalysisError('%s: scope of `%s` not recognised' % (fi.qualname, short(c)))
    return names


def constant_sample_indices(fi):
    """Subscripts `<samples parameter>[<int constant>]` in a gen_evaluations body: (node, parameter, index).  The lists have
    config['samples'] entries and the schema admits samples = 1 (Positive(int); NumericalGrader pins 1, IntegralGrader
    defaults to 1), so only the indices 0 and -1 exist for every configuration."""
    out = []
    for n in walk_own(fi.node):
        if isinstance(n, ast.Subscript) and isinstance(n.value, ast.Name) and n.value.id in ('var_samples', 'func_samples') \
                and n.value.id in fi.params:
            k = nf.const_value(n.slice, None)
            if isinstance(k, int) and not isinstance(k, bool):
                out.append((n, n.value.id, k))
    return out


def _is_single_pass_iterator(idx, fi, value):
    """Is `value` an expression that yields a one-shot iterator: a call of a generator function of the package, a generator
    expression, or iter()/zip()/map()/enumerate()/filter()/reversed() of something?"""
    if isinstance(value, ast.GeneratorExp):
        return 'a generator expression'
    if isinstance(value, ast.Call):
        if isinstance(value.func, ast.Name) and value.func.id in ('iter', 'zip', 'map', 'enumerate', 'filter', 'reversed'):
            return '%s(...)' % value.func.id
        try:
            targets, how = idx.resolve_call(fi, value)
        except Exception:
            targets = []
        targets = [t for t in targets if not isinstance(t, tuple)]
        if targets and all(any(isinstance(n, (ast.Yield, ast.YieldFrom)) for n in walk_own(t.node)) for t in targets):
            return 'the generator %s(...)' % targets[0].qualname
    return None


def _iterator_consumed_before_loop(r, idx, fi, name, loop):
    """The sampling loop runs over a single-pass iterator bound once to a name; a `next(<that name>)` that can execute before
    the loop removes the first sample from the comparison.  Returns True iff this (definite) defect was reported."""
    seq, _ = fl.unwrap_seq(loop.iter)
    if not isinstance(seq, ast.Name):
        return False
    defs = lib.assigned_value(fi.node, seq.id)
    if len(defs) != 1:
        return False
    what = _is_single_pass_iterator(idx, fi, defs[0])
    if what is None:
        return False
    cfg = cfg_of(fi.node)
    head = fl.loop_head(cfg, loop)
    peeks = [c for c in walk_own(fi.node) if isinstance(c, ast.Call) and isinstance(c.func, ast.Name) and c.func.id == 'next'
             and c.args and fl.name_of(c.args[0]) == seq.id and not any(a is loop for a in ancestors(c))]
    early = [c for c in peeks if cfg.reaches(fl.nodes_for(cfg, c), [head], after=True)]
    if not early:
        return False
    c = early[0]
    guards = fl.reach_condition(enclosing_stmt(c), fi.node)
    gen_q = what[len('the generator '):-len('(...)')] if what.startswith('the generator ') else None
    construct = ('%s: iterated by the sampling loop of %s' % (gen_q, name)) if gen_q and gen_q in (idx.unreviewed or []) \
        else name + ': sample count'     # the finding is about the (new) generator itself: name it as the construct
    what = what.replace(gen_q, gen_q.rsplit('.', 1)[-1]) if gen_q else what
    r.violation(construct, '`%s` is bound once to %s, a single-pass iterator, and `%s` can run before the loop that '
                'enumerates it%s: the first sample is consumed there and never compared -- only samples-1 samples are graded, and a '
                'single-sample grader (NumericalGrader) compares nothing at all' % (
                    seq.id, what, short(c), (' (when %s)' % ' and '.join(unparse(g) for g in guards)) if guards else ''),
                lib.loc(fi, c), expected='look at var_samples[0] (or restart the iterator) instead of consuming an element')
    return True


def _is_cfg_samples(e):
    return nf.config_key(e) == 'samples'


def d4_count(ctx, idx):
    """The sample lists the graders loop over have config['samples'] entries on every route: D4.SAMPLES accepts
    `range(len(var_samples))` as a loop header, so the length of var_samples is an obligation of the producer."""
    r = ctx.rule('D4.COUNT', "every gen_symbols_samples call of gen_var_and_func_samples draws config['samples'] samples, and no "
                 'caller of gen_var_and_func_samples asks for another number', floor=2)
    with r:
        fi = idx.func(MM + '.gen_var_and_func_samples')
        fn = fi.node
        calls = [c for c in ast.walk(fn) if isinstance(c, ast.Call) and nf.callee_name(c) == 'gen_symbols_samples']
        if not calls:
            raise AnalysisError('gen_var_and_func_samples: no gen_symbols_samples call found')
        params = {a.arg for a in fn.args.args + fn.args.kwonlyargs} - {'self'}
        kwname = fn.args.kwarg.arg if fn.args.kwarg else None
        caller_keys = set()         # keyword names through which a caller can change the count
        for c in calls:
            construct = 'gen_var_and_func_samples: number of samples drawn by `%s`' % short(c, 60)
            arg = c.args[1] if len(c.args) > 1 else next((k.value for k in c.keywords if k.arg == 'samples'), None)
            if arg is None:
                r.undecided(construct, 'samples argument not found', lib.loc(fi, c))
                continue
            e = lib.inline_locals(arg, fn)
            if _is_cfg_samples(e):
                r.ok(construct, "config['samples']", lib.loc(fi, c))
                continue
            # caller-supplied with config['samples'] as the default:  kwargs.get('k', config['samples'])  /  parameter k
            key = None
            if isinstance(e, ast.Call) and isinstance(e.func, ast.Attribute) and e.func.attr in ('get', 'pop') and kwname \
                    and isinstance(e.func.value, ast.Name) and e.func.value.id == kwname and len(e.args) == 2 \
                    and isinstance(e.args[0], ast.Constant) and _is_cfg_samples(e.args[1]):
                key = e.args[0].value
            elif isinstance(e, ast.IfExp) and isinstance(e.test, ast.Compare) and len(e.test.ops) == 1 \
                    and isinstance(e.test.left, ast.Name) and e.test.left.id in params \
                    and isinstance(e.test.comparators[0], ast.Constant) and e.test.comparators[0].value is None:
                a, b = (e.body, e.orelse) if isinstance(e.test.ops[0], ast.Is) else (e.orelse, e.body)
                if _is_cfg_samples(a) and isinstance(b, ast.Name) and b.id == e.test.left.id:
                    key = b.id
            if key is not None:
                caller_keys.add(key)
                r.ok(construct, "config['samples'] unless the caller passes %s= (callers checked below)" % key, lib.loc(fi, c))
            elif isinstance(e, ast.Constant):
                r.violation(construct, "a fixed number of samples (%s) is drawn instead of config['samples']" % short(e), lib.loc(fi, c),
                            expected="self.config['samples']", found=short(e))
            elif nf.config_key(e) is not None:
                r.violation(construct, "config['%s'] samples are drawn, not config['samples']" % nf.config_key(e), lib.loc(fi, c),
                            expected="self.config['samples']", found=short(e))
            else:
                r.undecided(construct, 'count expression not recognised: %s' % short(e), lib.loc(fi, c))
        if caller_keys:
            for q, cfi in sorted(idx.funcs.items()):
                for c in ast.walk(cfi.node):
                    if isinstance(c, ast.Call) and isinstance(c.func, ast.Attribute) and c.func.attr == 'gen_var_and_func_samples':
                        if any(k.arg is None for k in c.keywords):
                            r.undecided('%s: call of gen_var_and_func_samples' % q, '**-spread keywords not followed', lib.loc(cfi, c))
                        for k in c.keywords:
                            if k.arg in caller_keys:
                                v = lib.inline_locals(k.value, cfi.node)
                                construct = '%s: number of samples requested from gen_var_and_func_samples' % q.split('.', 2)[-1]
                                if _is_cfg_samples(v):
                                    r.ok(construct, "config['samples']", lib.loc(cfi, c))
                                elif isinstance(v, ast.Constant) or (isinstance(v, ast.IfExp) and any(
                                        isinstance(b, ast.Constant) for b in (v.body, v.orelse))):
                                    r.violation(construct, "`%s=%s`: on some configurations a fixed number of samples is compared instead "
                                                "of config['samples'] (with a single sample failable_evals is not honoured either); "
                                                "random functions are resampled per sample even when there are no variables"
                                                % (k.arg, short(v)), lib.loc(cfi, c), expected="self.config['samples']", found=short(v))
                                else:
                                    r.undecided(construct, 'requested count not recognised: %s' % short(v), lib.loc(cfi, c))


def d4_samples(ctx, idx):
    r = ctx.rule('D4.SAMPLES', "author and student are evaluated in the same iteration of one loop over range(config['samples']) "
                 'on the same scope objects, the i-th sample loaded first, only deletions in between', floor=21)
    with r:
        for q in (FGC, IGC, SGC):
            fi = idx.func(q + '.gen_evaluations')
            name = q.split('.')[-1] + '.gen_evaluations'
            author, student = _gen_eval_roots(fi)
            a_calls, s_calls = eval_sites(fi, author, student)
            if len(a_calls) != 1 or len(s_calls) != 1:
                raise AnalysisError('%s: expected one author and one student evaluation, found %d/%d'
                                    % (name, len(a_calls), len(s_calls)))
            ac, sc = a_calls[0], s_calls[0]
            la, ls = fl.enclosing_loop(ac, fi.node), fl.enclosing_loop(sc, fi.node)
            if la is None or ls is None:
                r.violation(name + ': loop', 'the %s evaluation is outside the sampling loop: it is computed for one sample only'
                            % ('author\'s' if la is None else 'student\'s'), lib.loc(fi, ac if la is None else sc))
                continue
            if la is not ls:
                r.violation(name + ': loop', 'author and student are evaluated in different loops: by the time the student is '
                            'evaluated the scope holds another sample than the one the author\'s value was computed with',
                            lib.loc(fi, sc))
                continue
            loop = la
            r.ok(name + ': loop', 'author and student evaluated in the same loop iteration', lib.loc(fi, loop))
            # iteration count
            if not (isinstance(loop, ast.For) and isinstance(loop.target, ast.Name)):
                if isinstance(loop, ast.For) and _iterator_consumed_before_loop(r, idx, fi, name, loop):
                    continue
                r.undecided(name + ': sample count', 'loop header not recognised', lib.loc(fi, loop))
                continue
            lv = loop.target.id
            it = lib.inline_locals(loop.iter, fi.node)
            res = nf.classify(["range(self.config['samples'])", "range(0, self.config['samples'])",
                               "range(len(var_samples))"], it)
            if res == nf.MATCH:
                r.ok(name + ': sample count', "range(config['samples'])", lib.loc(fi, loop))
            elif isinstance(res, tuple):
                r.violation(name + ': sample count', res[1] + " -- the number of compared samples is not config['samples']",
                            lib.loc(fi, loop), expected="range(self.config['samples'])", found=unparse(it))
            elif isinstance(it, ast.Call) and nf.callee_name(it) == 'range' and it.args and \
                    all(isinstance(a, ast.Constant) for a in it.args):
                r.violation(name + ': sample count', "a fixed number of samples (`%s`) is compared instead of config['samples']"
                            % unparse(it), lib.loc(fi, loop), expected="range(self.config['samples'])")
            elif isinstance(it, ast.Call) and nf.callee_name(it) == 'range' and len(it.args) == 1 and \
                    nf.config_key(it.args[0]) not in (None, 'samples'):
                r.violation(name + ': sample count', "the loop runs config['%s'] times, not config['samples']"
                            % nf.config_key(it.args[0]), lib.loc(fi, loop))
            else:
                r.undecided(name + ': sample count', 'iteration not recognised: %s' % short(it), lib.loc(fi, loop))
            extra = [e for e in lib.loop_has_early_exit(loop) if not isinstance(e, ast.Raise)]
            r.check(not extra, name + ': all samples', 'no break/continue/return inside the sampling loop',
                    '`%s` ends the sampling loop early: the remaining samples are never compared' % (short(extra[0]) if extra else ''),
                    lib.loc(fi, extra[0]) if extra else lib.loc(fi, loop))
            # the same scope objects
            sa, ss = scope_names(fi, [ac], idx), scope_names(fi, [sc], idx)
            if sa != ss:
                r.violation(name + ': scope', 'author and student are evaluated on different scope objects (%s vs %s): they do not '
                            'see the same sample' % (sorted(sa), sorted(ss)), lib.loc(fi, sc))
                continue
            scopes = {n for _, n in sa}
            r.ok(name + ': scope', 'both evaluations use %s' % sorted(scopes), lib.loc(fi, sc))
            # writers of the scope objects inside the loop
            cfg = cfg_of(fi.node)
            a_nodes, s_nodes = fl.nodes_for(cfg, ac), fl.nodes_for(cfg, sc)
            loads = []
            for n in ast.walk(loop):
                if isinstance(n, ast.Call) and isinstance(n.func, ast.Attribute) and isinstance(n.func.value, ast.Name) \
                        and n.func.value.id in scopes and n.func.attr in SCOPE_WRITERS:
                    loads.append((n, n.func.value.id))
                elif isinstance(n, ast.Assign):
                    for t in n.targets:
                        if isinstance(t, ast.Name) and t.id in scopes:
                            loads.append((n, t.id))
                        elif isinstance(t, ast.Subscript) and isinstance(t.value, ast.Name) and t.value.id in scopes:
                            loads.append((n, t.value.id))
            between = set(fl.between_in_iteration(cfg, loop, a_nodes, s_nodes))
            before = {}
            for n, target in loads:
                nodes = set(fl.nodes_for(cfg, n)) if not isinstance(n, ast.Assign) else set(cfg.nodes_of(n))
                where = lib.loc(fi, n)
                if nodes & between:
                    r.violation(name + ': between author and student', '`%s` changes the scope after the author\'s value was computed '
                                'and before the student\'s is: the two are evaluated on different samples' % short(n), where)
                    continue
                head = fl.loop_head(cfg, loop)
                dom_a = not cfg.reaches([head], a_nodes, blocked=nodes, after=True) if nodes else False
                if dom_a and isinstance(n, ast.Call) and n.func.attr == 'update' and len(n.args) == 1:
                    arg = n.args[0]
                    if isinstance(arg, ast.Subscript) and isinstance(arg.value, ast.Name) and arg.value.id in fi.params:
                        ix = arg.slice
                        if isinstance(ix, ast.Name) and ix.id == lv:
                            before.setdefault(target, []).append(arg.value.id)
                            r.ok(name + ': sample %s' % target, '%s.update(%s[%s]) precedes both evaluations in every iteration'
                                 % (target, arg.value.id, lv), where)
                        elif isinstance(ix, ast.Constant):
                            r.violation(name + ': sample %s' % target, 'every iteration loads sample %r (`%s`): the configured number of '
                                        'independent samples is not used' % (ix.value, short(n)), where,
                                        expected='%s[%s]' % (arg.value.id, lv))
                        else:
                            r.undecided(name + ': sample %s' % target, 'sample index not recognised: %s' % short(n), where)
                    else:
                        r.undecided(name + ': sample %s' % target, 'loaded value not recognised: %s' % short(n), where)
            for kind, target in sorted(sa):
                want = 'var_samples' if kind in ('variables', 'varscope') else 'func_samples'
                if want not in before.get(target, []):
                    if any(t == target for _, t in loads):
                        fl.absent(r, idx, name + ': sample %s' % target, 'no `%s.update(%s[%s])` precedes the author\'s evaluation on every path '
                                    'of an iteration: author and/or student are evaluated with the previous iteration\'s sample'
                                    % (target, want, lv), lib.loc(fi, loop))
                    else:
                        fl.absent(r, idx, name + ': sample %s' % target, 'the %s of the current iteration are never loaded into %s'
                                    % (want, target), lib.loc(fi, loop))
            # constant indices into the sample lists must exist for a single-sample grader
            consts = constant_sample_indices(fi)
            bad = [(n, pn, k) for n, pn, k in consts if k not in (0, -1)]
            if bad:
                n, pn, k = bad[0]
                r.violation(name + ': constant sample index', '`%s` needs at least %d samples, but samples = 1 is a valid configuration '
                            '(NumericalGrader pins it, IntegralGrader defaults to it): such a grader raises IndexError for every '
                            'submission (shown as the generic "could not check input" error) instead of grading it'
                            % (short(n), k + 1 if k > 0 else -k), lib.loc(fi, n), expected='%s[0]' % pn, found=unparse(n))
            else:
                r.ok(name + ': constant sample index', '%d constant index(es) into the sample lists, all 0 / -1' % len(consts),
                     lib.loc(fi, consts[0][0]) if consts else fi.loc)
            # the author's evaluation precedes the student's (needed for "only deletions in between" to make sense)
            if not cfg.reaches(a_nodes, s_nodes, blocked=[fl.loop_head(cfg, loop)], after=True):
                r.undecided(name + ': order', 'the student\'s evaluation is not reachable from the author\'s within an iteration',
                            lib.loc(fi, sc))


def _consolidate_failure_table(idx):
    """{ok value: counted as failure?} of consolidate_results' failure predicate, or None if its form is not recognised."""
    fi = idx.func(MM + '.consolidate_results')
    ps = [p for p in fi.params if p not in ('self', 'cls')]
    if len(ps) != 3:
        return None
    p_res = ps[0]
    env = fl.flat_env(fi.node)
    try:
        loops = lib.loops_of(fi.node)
        if len(loops) == 1 and isinstance(loops[0], ast.For):
            loop = loops[0]
            seq, start = fl.unwrap_seq(loop.iter)
            if fl.name_of(seq) == p_res and isinstance(loop.target, ast.Name):
                rv = loop.target.id
                tests = [n for n in ast.walk(loop) if isinstance(n, ast.If) and
                         any(nf.match("%s['ok']" % rv, x) is not None for x in ast.walk(n.test))]
                if len(tests) == 1:
                    return _failure_predicate(tests[0].test, rv)
                return None
            seq_x = fl.expand(seq, env) if isinstance(seq, ast.Name) else seq
            flt = _filter_over(seq_x, p_res)
            if flt is not None:
                return _failure_predicate(flt[1], flt[0])
            return None
        if not loops:
            cands = [_filter_over(v, p_res) for v in env.values() if _filter_over(v, p_res) is not None]
            if len(cands) == 1:
                return _failure_predicate(cands[0][1], cands[0][0])
    except mev.Unsupported:
        return None
    return None


def _ok_stores_between(r, idx, fi, name, rn, ccall, kcall):
    """A result whose ok is True after the comparison must still be True when consolidate_results counts `ok != True` as
    a failure: every store to result['ok'] between the two calls must be guarded so that it cannot run for ok == True."""
    construct = name + ': ok after scaling'
    stores = []
    for n in walk_own(fi.node):
        if isinstance(n, ast.Assign):
            for t in n.targets:
                if isinstance(t, ast.Subscript) and lib.subscript_key(t) == 'ok':
                    stores.append((n, t))
    cfg = cfg_of(fi.node)
    c_nodes, k_nodes = fl.nodes_for(cfg, ccall), fl.nodes_for(cfg, kcall)
    relevant = []
    for n, t in stores:
        nodes = cfg.nodes_of(n)
        if cfg.reaches(c_nodes, nodes, blocked=k_nodes, after=True) and cfg.reaches(nodes, k_nodes, after=True):
            relevant.append((n, t))
    if not relevant:
        r.ok(construct, "no store to result['ok'] between compare_evaluations and consolidate_results", lib.loc(fi, kcall))
        return
    table = _consolidate_failure_table(idx)
    for n, t in relevant:
        where = lib.loc(fi, n)
        loop = fl.enclosing_loop(n, fi.node)
        base = fl.name_of(t.value)
        per_result = isinstance(loop, ast.For) and isinstance(loop.target, ast.Name) and base == loop.target.id and \
            fl.mentions(loop.iter, rn)
        if not per_result:
            r.undecided(construct, 'store `%s` is not on the loop variable of a loop over the comparer results' % short(n), where)
            continue
        conj = fl.reach_condition(n, fi.node)
        admits = {}
        try:
            for v in OK_VALUES:
                rec = {'ok': v}
                rel = [c for c in conj if fl.mentions(c, base)]
                other = [c for c in conj if not fl.mentions(c, base)]
                admits[v] = all(mev.ev(c, {base: rec}) for c in rel)
        except (mev.Unsupported, KeyError):
            r.undecided(construct, 'guard of `%s` not evaluable over the three ok values: %s'
                        % (short(n), ' and '.join(unparse(c) for c in conj)), where)
            continue
        constant_true = isinstance(n.value, ast.Constant) and n.value.value is True
        if not admits[True] or constant_true:
            r.ok(construct, "`%s` can run only for ok in %s: results graded True stay True"
                 % (short(n, 70), [k for k in OK_VALUES if admits[k]]), where)
        elif table is None:
            r.undecided(construct, "`%s` can run for ok == True and the failure test of consolidate_results is not recognised"
                        % short(n, 70), where)
        elif table.get('partial') and not table.get(True):
            r.violation(construct, "`%s` is executed for results whose ok is True as well (guards: %s): after scaling by an answer credit "
                        "below 1 every AGREEING sample is relabelled 'partial', and consolidate_results counts every ok != True as a "
                        "failure -- so the number of agreeing samples no longer decides the verdict (a formula that matches only the "
                        "first failable_evals+1 samples earns the credit, and a perfect match returns the bare comparer record instead "
                        "of the answer's own credit and message)" % (short(n, 70), ' and '.join(unparse(c) for c in conj) or 'none'),
                        where, expected="if result['ok'] == 'partial': result['ok'] = ...")
        else:
            r.ok(construct, "`%s` may relabel True results, but consolidate_results does not count the new label as a failure"
                 % short(n, 70), where)


COMPARER_BASE = 'mitxgraders.comparers.baseclasses.Comparer'
CORRELATED = 'mitxgraders.comparers.baseclasses.CorrelatedComparer'


def _failable_by_comparer_class(r, idx, fi, nm, ifexp, ccall, where):
    """`X if isinstance(comparer, K) else Y` as third argument: decide per class of the comparer domain (plain function,
    every Comparer subclass of the package) which value is chosen; every non-correlated comparer must get
    config['failable_evals'] (a correlated comparer yields a single result, for which the allowance is irrelevant)."""
    construct = nm + ': consolidate failable_evals'
    env = fl.flat_env(fi.node)
    test = nf.canon(ifexp.test)
    neg = False
    if isinstance(test, ast.UnaryOp) and isinstance(test.op, ast.Not):
        test, neg = test.operand, True
    b = nf.match('isinstance(_C, _K)', test)
    cmp_arg = fl.expand(ccall.args[2], env) if len(ccall.args) > 2 else None
    if b is None or cmp_arg is None or not nf.equal(nf.canon(fl.expand(b['_C'], env)), nf.canon(cmp_arg)):
        return False
    kexprs = b['_K'].elts if isinstance(b['_K'], ast.Tuple) else [b['_K']]
    klasses = []
    for k in kexprs:
        d = idx.dotted_of(fi.module, k)
        kind, obj = idx.resolve_dotted(d) if d else (None, None)
        if kind != 'class':
            return False
        klasses.append(obj.qualname)
    domain = [('a plain comparer function', None)] + [(ci.qualname.rsplit('.', 1)[-1], ci) for ci in idx.family(COMPARER_BASE)]
    bad = []
    for label, ci in domain:
        inst = ci is not None and any(k in ci.mro for k in klasses)
        chosen = ifexp.body if (inst != neg) else ifexp.orelse
        correlated = ci is not None and CORRELATED in ci.mro
        if correlated:
            continue
        if not lib.is_config(fl.expand(chosen, env), 'failable_evals'):
            bad.append((label, chosen))
    if not bad:
        r.ok(construct, "config['failable_evals'] for every comparer that is compared sample by sample (%d comparer classes examined)"
             % len(domain), where)
    else:
        label, chosen = bad[0]
        r.violation(construct, "for %s (%s) consolidate_results receives `%s` instead of config['failable_evals'] (`%s`): the configured "
                    "number of tolerated failing samples is ignored for these comparers%s"
                    % (', '.join(l for l, _ in bad[:4]), 'isinstance(comparer, %s)' % '/'.join(k.rsplit('.', 1)[-1] for k in klasses),
                       short(chosen), short(ifexp, 90),
                       ' -- including the default equality_comparer' if any(l == 'EqualityComparer' for l, _ in bad) else ''),
                    where, expected="self.config['failable_evals']", found=unparse(ifexp))
    return True


def _fresh_scaled_records(r, idx, fi, name, rn, ccall, kcall):
    """Scaling done by building a NEW record per comparer result: `{'grade_decimal': r['grade_decimal'] * answer['grade_decimal'], ...}`
    inside an iteration over the comparer results, collected into the list that consolidate_results receives."""
    env = lib.local_env(fi.node)
    hits = []
    for d in [n for n in walk_own(fi.node) if isinstance(n, ast.Dict)]:
        keys = lib.dict_literal_keys(d)
        if 'grade_decimal' not in keys:
            continue
        loop = fl.enclosing_loop(d, fi.node)
        comp = [a for a in ancestors(d) if isinstance(a, (ast.ListComp, ast.GeneratorExp))]
        rv = None
        if isinstance(loop, ast.For) and isinstance(loop.target, ast.Name) and fl.name_of(fl.unwrap_seq(loop.iter)[0]) == rn:
            rv = loop.target.id
        elif comp and len(comp[0].generators) == 1 and isinstance(comp[0].generators[0].target, ast.Name) \
                and fl.name_of(fl.unwrap_seq(comp[0].generators[0].iter)[0]) == rn:
            rv = comp[0].generators[0].target.id
        if rv is None:
            continue
        hits.append((d, rv, loop, fl.expand(d.values[keys.index('grade_decimal')], env)))
    if not hits:
        return False
    for d, rv, loop, val in hits:
        where = lib.loc(fi, d)
        res = nf.classify("%s['grade_decimal'] * answer['grade_decimal']" % rv, val)
        if res == nf.MATCH:
            extra = lib.loop_has_early_exit(loop) if loop is not None else []
            conds = [a for a, br in fl.if_chain_containing(d, fi.node) if loop is not None and any(a is x for x in ast.walk(loop))]
            if extra or conds:
                r.violation(name + ': credit scaling', 'the scaled record is not built for every result (%s)'
                            % short(extra[0] if extra else conds[0].test), where)
            else:
                r.ok(name + ': credit scaling', "a fresh record with grade_decimal = result grade * answer['grade_decimal'] per result", where)
            a0 = lib.get_kw(kcall, 'results', 0)
            flows = fl.Prov(fi.node, roots=[]).defs
            reach = False
            seen, todo = set(), [fl.name_of(a0)] if fl.name_of(a0) else []
            while todo:
                n = todo.pop()
                if n in seen or n is None:
                    continue
                seen.add(n)
                for v in flows.get(n, []):
                    if any(x is d for x in ast.walk(v)):
                        reach = True
                    todo.extend(y.id for y in ast.walk(v) if isinstance(y, ast.Name))
            r.check(reach and lib.dominated(fi, [ccall], [d]), name + ': credit scaling order',
                    'the scaled records are what consolidate_results receives',
                    'consolidate_results does not receive the scaled records', where)
        elif isinstance(res, tuple):
            r.violation(name + ': credit scaling', res[1], where,
                        expected="%s['grade_decimal'] * answer['grade_decimal']" % rv, found=unparse(val))
        else:
            r.undecided(name + ': credit scaling', 'grade of the rebuilt record not recognised: %s' % short(val), where)
    return True


def _scaling_after_consolidation(r, idx, fi, name, ccall):
    """Scaling moved into consolidate_results, applied to the ONE record it hands back.  That record is of two kinds: a
    failing sample result (unscaled comparer grade) or the pruned answer (whose grade already IS the answer's credit)."""
    cf = idx.func(MM + '.consolidate_results')
    ps = [p for p in cf.params if p not in ('self', 'cls')]
    if len(ps) != 3:
        return False
    p_res, p_ans, p_fail = ps
    hits = []
    for n in walk_own(cf.node):
        val = tgt = None
        if isinstance(n, ast.AugAssign) and lib.subscript_key(n.target) == 'grade_decimal' and isinstance(n.op, ast.Mult):
            tgt, val = n.target, n.value
        elif isinstance(n, ast.Assign) and len(n.targets) == 1 and lib.subscript_key(n.targets[0]) == 'grade_decimal' \
                and isinstance(n.value, ast.BinOp) and isinstance(n.value.op, ast.Mult):
            tgt = n.targets[0]
            val = n.value.right if nf.equal(nf.canon(n.value.left), nf.canon(_as_load(tgt))) else n.value.left
        if tgt is not None and nf.match("%s['grade_decimal']" % p_ans, val) is not None and isinstance(tgt.value, ast.Name):
            hits.append((n, tgt.value.id))
    if not hits:
        return False
    for n, x in hits:
        where = lib.loc(cf, n)
        defs = lib.assigned_value(cf.node, x)
        kinds = set()
        prov = fl.Prov(cf.node, roots=[p_res, p_ans])
        for v in defs:
            pr = prov.of(v)
            if p_ans in pr:
                kinds.add('pruned answer')
            if p_res in pr:
                kinds.add('sample result')
        conj = fl.reach_condition(n, cf.node)
        try:
            admits = {v: all(mev.ev(c, {x: {'ok': v}}) for c in conj if fl.mentions(c, x)) for v in OK_VALUES}
        except (mev.Unsupported, KeyError):
            admits = None
        if 'pruned answer' in kinds and (admits is None or admits.get('partial')):
            r.violation(name + ': credit scaling', "the multiplication by answer['grade_decimal'] moved from raw_check (every comparer result, "
                        "before consolidation) into consolidate_results, where it is applied to the verdict `%s` after the selection%s; that "
                        "verdict is either a failing sample result or the pruned ANSWER, whose grade already is the answer's credit and whose "
                        "ok is 'partial' for a partial-credit answer: the credit is applied twice (an answer worth 0.6 earns 0.36)"
                        % (x, ' under `%s`' % ' and '.join(unparse(c) for c in conj) if conj else ''), where,
                        expected="result['grade_decimal'] *= answer['grade_decimal'] for every comparer result, before consolidate_results")
        elif kinds == {'sample result'} and admits is not None and admits.get('partial'):
            r.ok(name + ': credit scaling', "consolidate_results multiplies the grade of the failing sample result it hands back by "
                 "answer['grade_decimal'] (the other results are not returned)", where)
            r.ok(name + ': credit scaling order', 'applied to the selected failing result before it is returned', where)
        else:
            r.undecided(name + ': credit scaling', 'scaling inside consolidate_results on `%s` (kinds %s) not understood' % (x, sorted(kinds)),
                        where)
    return True


def d4_credit(ctx, idx):
    r = ctx.rule('D4.CREDIT', "every comparer grade is multiplied by the answer's credit before consolidation with "
                 "config['failable_evals']", floor=10)
    with r:
        fi = idx.func(FGC + '.raw_check')
        name = 'FormulaGrader.raw_check'
        ccall = lib.one_call(fi, 'compare_evaluations')
        st = enclosing_stmt(ccall)
        if not (isinstance(st, ast.Assign) and isinstance(st.targets[0], ast.Name)):
            raise AnalysisError('%s: result of compare_evaluations is not bound to a name' % name)
        rn = st.targets[0].id
        kcall = lib.one_call(fi, 'consolidate_results')
        stores = []
        for n in walk_own(fi.node):
            val = None
            if isinstance(n, ast.AugAssign) and lib.subscript_key(n.target) == 'grade_decimal':
                val = ast.BinOp(left=_as_load(n.target), op=n.op, right=n.value)
                tgt = n.target
            elif isinstance(n, ast.Assign) and len(n.targets) == 1 and lib.subscript_key(n.targets[0]) == 'grade_decimal':
                val = n.value
                tgt = n.targets[0]
            if val is not None:
                stores.append((n, tgt, val))
        if not stores and _fresh_scaled_records(r, idx, fi, name, rn, ccall, kcall):
            pass
        elif not stores and _scaling_after_consolidation(r, idx, fi, name, ccall):
            pass
        elif not stores:
            others = [c for c in walk_own(fi.node) if isinstance(c, ast.Call) and c is not ccall and c is not kcall
                      and any(fl.mentions(a, rn) for a in fl.call_args(c))]
            if others:
                r.undecided(name + ': credit scaling', 'no store to [\'grade_decimal\']; results are handed to `%s`' % short(others[0]),
                            lib.loc(fi, others[0]))
            else:
                fl.absent(r, idx, name + ': credit scaling', "the comparer grades are no longer multiplied by answer['grade_decimal']: a "
                            "matched partial-credit answer yields full credit per sample and failing partial results keep their "
                            "unscaled grade", lib.loc(fi, ccall), expected="result['grade_decimal'] *= answer['grade_decimal']")
        for n, tgt, val in stores:
            where = lib.loc(fi, n)
            loop = fl.enclosing_loop(n, fi.node)
            ok_loop = isinstance(loop, ast.For) and isinstance(loop.iter, ast.Name) and loop.iter.id == rn and \
                isinstance(loop.target, ast.Name) and isinstance(tgt.value, ast.Name) and tgt.value.id == loop.target.id
            if not ok_loop:
                if isinstance(loop, ast.For) and isinstance(loop.iter, ast.Subscript) and fl.mentions(loop.iter, rn):
                    r.violation(name + ': credit scaling', 'only part of the results is scaled (`%s`)' % short(loop.iter), where)
                else:
                    r.undecided(name + ': credit scaling', 'the store is not inside `for result in %s`' % rn, where)
                continue
            rv = loop.target.id
            res = nf.classify("%s['grade_decimal'] * answer['grade_decimal']" % rv, val)
            if res == nf.MATCH:
                extra = [e for e in lib.loop_has_early_exit(loop)]
                cond = [a for a, br in fl.if_chain_containing(n, fi.node) if any(a is x for x in ast.walk(loop))]
                if extra or cond:
                    r.violation(name + ': credit scaling', 'the scaling is skipped for some results (%s)'
                                % short(extra[0] if extra else cond[0].test), where)
                else:
                    r.ok(name + ': credit scaling', "result['grade_decimal'] *= answer['grade_decimal'] for every result", where)
                r.check(lib.dominated(fi, [loop.iter], [kcall]) and lib.dominated(fi, [ccall], [n])
                        and fl.enclosing_loop(kcall, fi.node) is not loop, name + ': credit scaling order',
                        'after the comparison and before consolidation',
                        'the scaling does not lie between compare_evaluations and consolidate_results on every path', where)
            elif isinstance(res, tuple):
                r.violation(name + ': credit scaling', res[1], where,
                            expected="%s['grade_decimal'] * answer['grade_decimal']" % rv, found=unparse(val))
            else:
                r.undecided(name + ': credit scaling', 'not recognised: %s' % short(n), where)
        _ok_stores_between(r, idx, fi, name, rn, ccall, kcall)
        for q, ans in ((FGC, 'answer'), (SGB, None)):
            fi2 = idx.func(q + '.raw_check')
            nm = q.split('.')[-1] + '.raw_check'
            kc = lib.one_call(fi2, 'consolidate_results')
            cc = lib.one_call(fi2, 'compare_evaluations')
            st2 = enclosing_stmt(cc)
            rn2 = st2.targets[0].id if isinstance(st2, ast.Assign) and isinstance(st2.targets[0], ast.Name) else None
            a0, a1, a2 = (lib.get_kw(kc, 'results', 0), lib.get_kw(kc, 'answer', 1), lib.get_kw(kc, 'failable_evals', 2))
            where = lib.loc(fi2, kc)
            if isinstance(a0, ast.Name) and a0.id == rn2:
                r.ok(nm + ': consolidate results', 'all comparer results', where)
            elif a0 is not None and isinstance(a0, ast.Subscript) and fl.mentions(a0, rn2 or ''):
                r.violation(nm + ': consolidate results', 'only part of the comparer results is consolidated (`%s`)' % short(a0), where)
            else:
                r.undecided(nm + ': consolidate results', 'first argument not recognised: %s' % short(a0), where)
            if ans is not None:
                if isinstance(a1, ast.Name) and a1.id == ans:
                    r.ok(nm + ': consolidate answer', 'the matched answer', where)
                else:
                    r.undecided(nm + ': consolidate answer', 'second argument not recognised: %s' % short(a1), where)
            a2x = fl.expand(a2, fl.flat_env(fi2.node)) if a2 is not None else None
            if lib.is_config(a2, 'failable_evals'):
                r.ok(nm + ': consolidate failable_evals', "self.config['failable_evals']", where)
            elif isinstance(a2x, ast.IfExp) and _failable_by_comparer_class(r, idx, fi2, nm, a2x, cc, where):
                pass
            elif a2 is not None and nf.config_key(a2) is not None:
                r.violation(nm + ': consolidate failable_evals', "failures are counted against config['%s'], not config['failable_evals']"
                            % nf.config_key(a2), where, expected="self.config['failable_evals']")
            elif isinstance(a2, ast.Constant):
                r.violation(nm + ': consolidate failable_evals', "config['failable_evals'] is ignored: the constant %r is used" % a2.value,
                            where, expected="self.config['failable_evals']")
            else:
                r.undecided(nm + ': consolidate failable_evals', 'third argument not recognised: %s' % short(a2), where)
            rets = lib.returns_of(fi2.node)
            st3 = enclosing_stmt(kc)
            bound = st3.targets[0].id if isinstance(st3, ast.Assign) and isinstance(st3.targets[0], ast.Name) else None
            good = [x for x in rets if isinstance(x.value, ast.Tuple) and x.value.elts and
                    ((isinstance(x.value.elts[0], ast.Name) and x.value.elts[0].id == bound) or x.value.elts[0] is kc)]
            if len(good) == len(rets) and rets:
                r.ok(nm + ': verdict', 'returns the consolidated result', lib.loc(fi2, rets[0]))
            else:
                r.undecided(nm + ': verdict', 'the consolidated result is not what is returned', fi2.loc)


def _as_load(node):
    from ..index import clone
    new = clone(node)
    for n in ast.walk(new):
        if hasattr(n, 'ctx'):
            n.ctx = ast.Load()
    return new


# ----------------------------------------------------------------------------- D5
def _schema_entries(idx, keys):
    """(module, owner text, key name, key call, value node) for every `Required('<key>', ...): value` dict entry."""
    out = []
    for m in idx.package_modules():
        for d in ast.walk(m.tree):
            if not isinstance(d, ast.Dict):
                continue
            for k, v in zip(d.keys, d.values):
                if isinstance(k, ast.Call) and nf.callee_name(k) in ('Required', 'Optional') and k.args \
                        and isinstance(k.args[0], ast.Constant) and k.args[0].value in keys:
                    owner = None
                    for a in ancestors(d):
                        if isinstance(a, ast.ClassDef):
                            owner = a.name
                            break
                    out.append((m, owner or m.name, k.args[0].value, k, v))
    return out


def d5_tables(ctx, idx):
    r = ctx.rule('D5.TABLE', 'tolerance is a PercentageString or a non-negative number in every math schema; samples is a '
                 'positive int; failable_evals a non-negative int; NumericalGrader pins samples 1 / failable_evals 0', floor=21)
    with r:
        entries = _schema_entries(idx, {'tolerance', 'samples', 'failable_evals'})
        seen = {}
        for m, owner, key, kcall, v in entries:
            construct = "%s schema: '%s'" % (owner, key)
            where = lib.mloc(m, v)
            seen.setdefault(key, []).append(owner)
            pinned = owner == 'NumericalGrader' and key in ('samples', 'failable_evals')
            if key == 'tolerance':
                res = nf.classify(['Any(PercentageString, NonNegative(Number))', 'Any(NonNegative(Number), PercentageString)'], v)
                if res == nf.MATCH:
                    r.ok(construct, 'Any(PercentageString, NonNegative(Number))', where)
                elif nf.match('Any(PercentageString, Positive(Number))', v) is not None:
                    r.violation(construct, 'a tolerance of 0 is refused (Positive): exact-match grading cannot be configured', where,
                                expected='NonNegative(Number)')
                elif nf.match('Any(PercentageString, Number)', v) is not None or nf.match('Any(PercentageString, _T)', v) is not None \
                        and unparse(nf.match('Any(PercentageString, _T)', v)['_T']) in ('Number', 'float', 'int', 'object'):
                    r.violation(construct, 'negative tolerances are accepted: norm(x - y) <= t can then never hold and no answer is '
                                'ever correct', where, expected='NonNegative(Number)', found=unparse(v))
                elif nf.match('NonNegative(Number)', v) is not None:
                    r.violation(construct, 'percentage tolerances are no longer accepted', where,
                                expected='Any(PercentageString, NonNegative(Number))')
                elif nf.match('Any(str, NonNegative(Number))', v) is not None:
                    r.violation(construct, 'any string is accepted as a tolerance (no PercentageString validation): negative or '
                                'malformed percentages reach within_tolerance', where)
                elif isinstance(res, tuple):
                    r.violation(construct, res[1], where, expected='Any(PercentageString, NonNegative(Number))', found=unparse(v))
                else:
                    r.undecided(construct, 'validator not recognised: %s' % short(v), where)
                d = lib.get_kw(kcall, 'default')
                dv = nf.const_value(d, None)
                if isinstance(dv, str):
                    ok = dv.strip().endswith('%') and _is_float(dv.strip()[:-1]) and float(dv.strip()[:-1]) >= 0
                elif isinstance(dv, (int, float)) and not isinstance(dv, bool):
                    ok = dv >= 0
                else:
                    ok = None
                if ok is None:
                    r.undecided(construct + ' default', 'default not a literal: %s' % short(d), where)
                else:
                    r.check(ok, construct + ' default', repr(dv), 'the default tolerance %r is not a valid non-negative tolerance' % (dv,),
                            where)
            elif pinned:
                want = 1 if key == 'samples' else 0
                cv = nf.const_value(v, None)
                if isinstance(v, ast.Constant) and cv == want and not isinstance(cv, bool):
                    r.ok(construct, 'pinned to %d' % want, where)
                elif isinstance(v, ast.Constant):
                    r.violation(construct, 'NumericalGrader pins %s to %r instead of %d' % (key, cv, want), where,
                                expected=str(want), found=repr(cv))
                else:
                    r.violation(construct, 'NumericalGrader no longer pins %s to %d (validator `%s`): a numerical answer is then '
                                'compared %s' % (key, want, short(v), 'several times' if key == 'samples' else 'with tolerated failures'),
                                where, expected=str(want), found=unparse(v))
            else:
                want = 'Positive(int)' if key == 'samples' else 'NonNegative(int)'
                res = nf.classify(want, v)
                if res == nf.MATCH:
                    r.ok(construct, want, where)
                elif key == 'samples' and nf.match('NonNegative(int)', v) is not None:
                    r.violation(construct, 'samples = 0 is accepted: no sample is compared and every response agrees vacuously',
                                where, expected=want)
                elif key == 'failable_evals' and nf.match('Positive(int)', v) is not None:
                    r.violation(construct, 'failable_evals = 0 (the default: no failure tolerated) is refused', where, expected=want)
                elif isinstance(v, ast.Name) and v.id in ('int', 'Number', 'float', 'object'):
                    r.violation(construct, '%s is only type-checked (`%s`): %s values are accepted' %
                                (key, v.id, 'zero and negative' if key == 'samples' else 'negative'), where, expected=want)
                elif isinstance(res, tuple):
                    r.violation(construct, res[1], where, expected=want, found=unparse(v))
                else:
                    r.undecided(construct, 'validator not recognised: %s' % short(v), where)
        for key, owners in (('tolerance', {'MathMixin', 'NumericalGrader', 'SumGrader'}),
                            ('samples', {'MathMixin', 'NumericalGrader', 'IntegralGrader', 'SumGrader'}),
                            ('failable_evals', {'MathMixin', 'NumericalGrader'})):
            missing = owners - set(seen.get(key, []))
            for o in sorted(missing):
                if o == 'NumericalGrader' and key != 'tolerance':
                    fl.absent(r, idx, "NumericalGrader schema: '%s'" % key, 'NumericalGrader no longer overrides %s: it inherits the '
                                'FormulaGrader option instead of the pinned value' % key, idx.cls(NGC).loc)
                elif o == 'MathMixin':
                    r.undecided("MathMixin schema: '%s'" % key, 'entry vanished from math_config_options', idx.cls(MM).loc)
        # the math schema is what the graders extend
        for q in (FGC, IGC, SGC):
            ci_q = idx.cls(q)
            fi = idx.lookup(ci_q, 'schema_config')
            if fi is None:
                raise AnalysisError('anchor vanished: %s.schema_config' % q)
            found, cur, chain_ok = None, fi, True
            for _ in range(6):
                ext = [c for c in lib.calls_named(cur.node, 'extend') if c.args and
                       nf.match('self.math_config_options', lib.inline_locals(c.args[0], cur.node)) is not None]
                if ext:
                    found = cur
                    break
                uses_super = any(isinstance(n, ast.Attribute) and n.attr == 'schema_config' and isinstance(n.value, ast.Call)
                                 and nf.callee_name(n.value) == 'super' for n in walk_own(cur.node))
                nxt = idx.lookup_after(ci_q, cur.cls.qualname, 'schema_config') if cur.cls is not None and uses_super else None
                if nxt is None:
                    chain_ok = uses_super
                    break
                cur = nxt
            construct = q.split('.')[-1] + '.schema_config'
            if found is not None:
                r.ok(construct, 'extends math_config_options%s' % ('' if found is fi else ' (in %s, reached through super().schema_config)'
                                                                    % found.qualname.rsplit('.', 2)[-2]), fi.loc)
            else:
                fl.absent(r, idx, construct, 'the grader schema no longer includes math_config_options (tolerance/samples/failable_evals '
                          'unvalidated)', fi.loc)
        # PercentageString
        fi = idx.func('mitxgraders.helpers.validatorfuncs.PercentageString')
        C = 'PercentageString'
        _percentage_string_structural(r, idx, fi, C)
        _nonneg_positive(r, idx)


def _percent_sources(idx, fi, expr, env, depth=2):
    """Does `expr` (after temporaries) carry float(<text>[:-1])?  Follows one same-module helper through its returns."""
    e = fl.expand(expr, env)
    for n in ast.walk(e):
        if nf.match('float(_W[:-1])', n) is not None:
            return True
    if depth > 0:
        # a name bound more than once (e.g. initialised to None, then set in a branch): any of its values may carry it
        for n in ast.walk(e):
            if isinstance(n, ast.Name) and n.id not in env:
                for v in lib.assigned_value(fi.node, n.id):
                    if not (isinstance(v, ast.Name) and v.id == n.id) and _percent_sources(idx, fi, v, env, depth - 1):
                        return True
    if depth > 0:
        for n in ast.walk(e):
            if isinstance(n, ast.Call) and isinstance(n.func, ast.Name) and n.func.id in fi.module.funcs:
                h = fi.module.funcs[n.func.id]
                henv = fl.flat_env(h.node)
                if any(x.value is not None and _percent_sources(idx, h, x.value, henv, depth - 1) for x in lib.returns_of(h.node)):
                    return True
    return False


def _helpers_called(fi, depth=2):
    out = [fi]
    if depth > 0:
        for c in walk_own(fi.node):
            if isinstance(c, ast.Call) and isinstance(c.func, ast.Name) and c.func.id in fi.module.funcs:
                for h in _helpers_called(fi.module.funcs[c.func.id], depth - 1):
                    if h not in out:
                        out.append(h)
    return out


def _percentage_string_structural(r, idx, fi, C):
    """Structure of PercentageString: a sign test on float(text[:-1]) decided over the order classes of the value against 0
    (negative, zero, positive, nan); a '%' suffix test; every other path raises Invalid."""
    env = fl.flat_env(fi.node)
    nan = float('nan')
    CLASSES = (('negative', -1.0), ('zero', 0.0), ('positive', 1.0), ('nan', nan))
    sign = []
    for n in walk_own(fi.node):
        if isinstance(n, ast.If) and any(isinstance(s_, ast.Raise) for s_ in n.body):
            names = [x for x in ast.walk(n.test) if isinstance(x, ast.Name)]
            cmp_ = [x for x in ast.walk(n.test) if isinstance(x, ast.Compare) and
                    any(isinstance(nf.const_value(y, None), (int, float)) for y in [x.left] + x.comparators)]
            pvars = [x for x in names if _percent_sources(idx, fi, x, env)]
            if cmp_ and pvars:
                sign.append((n, pvars[0].id))
    if not sign:
        fl.absent(r, idx, C + ': sign', "negative percentages are no longer refused: with tolerance '-1%' nothing is ever within "
                  'tolerance', fi.loc, expected='if not percent >= 0: raise Invalid')
    for n, pv in sign:
        where = lib.loc(fi, n)
        try:
            tab = {name: bool(mev.ev(n.test, {pv: v})) for name, v in CLASSES}
        except mev.Unsupported as e:
            r.undecided(C + ': sign', 'test not recognised: %s (%s)' % (short(n.test), e), where)
            continue
        raises = [nf.exc_class_name(s_.exc) for s_ in n.body if isinstance(s_, ast.Raise)]
        if tab == {'negative': True, 'zero': False, 'positive': False, 'nan': True} or \
                tab == {'negative': True, 'zero': False, 'positive': False, 'nan': False} and _nan_refused_elsewhere(fi, pv):
            r.check(all(c == 'Invalid' for c in raises), C + ': sign', 'negative (and nan) percentages raise Invalid; 0 is accepted',
                    'a negative percentage raises %s, which voluptuous does not treat as a validation failure' % raises, where)
        elif tab['zero'] and tab['negative']:
            r.violation(C + ': sign', "'0%%' is refused (`%s`): an exact-match percentage tolerance cannot be configured"
                        % unparse(n.test), where, expected='not percent >= 0')
        elif tab['positive'] and not tab['negative']:
            r.violation(C + ': sign', 'the sign test is inverted (`%s`): positive percentages are refused and negative ones accepted'
                        % unparse(n.test), where, expected='not percent >= 0')
        elif tab['negative'] and not tab['nan']:
            r.violation(C + ': sign', "`%s` lets 'nan%%' through (nan < 0 is False): with a nan tolerance nothing is ever within tolerance"
                        % unparse(n.test), where, expected='not percent >= 0')
        elif not tab['negative']:
            r.violation(C + ': sign', '`%s` does not refuse negative percentages' % unparse(n.test), where, expected='not percent >= 0')
        else:
            r.undecided(C + ': sign', 'sign test `%s` decides %s' % (short(n.test), tab), where)
    _percentage_value_roundtrip(r, idx, fi, C, env)
    ends = [(h, c) for h in _helpers_called(fi) for c in lib.calls_named(h.node, 'endswith')
            if c.args and nf.const_value(c.args[0], None) == '%']
    if ends:
        r.ok(C + ': form', "requires a trailing '%'", lib.loc(ends[0][0], ends[0][1]))
    else:
        r.undecided(C + ': form', "no endswith('%') test found", fi.loc)
    tail = strip_tail_raise(fi)
    if tail:
        r.ok(C + ': refusal', 'no path falls through or returns None: every other value raises', fi.loc)
    else:
        r.violation(C + ': refusal', 'values that are not percentage strings fall through (None is returned as the validated '
                    'tolerance)', fi.loc)


def _lossy_text(e):
    """Why the string expression `e` does not reproduce a float exactly (precision-limiting conversion), or None."""
    import string
    for n in ast.walk(e):
        if isinstance(n, ast.Call) and isinstance(n.func, ast.Attribute) and n.func.attr == 'format' \
                and isinstance(n.func.value, ast.Constant) and isinstance(n.func.value.value, str):
            try:
                fields = list(string.Formatter().parse(n.func.value.value))
            except ValueError:
                return None
            for lit, field, spec, conv in fields:
                if field is not None and spec:
                    return 'format spec `:%s` in %r' % (spec, n.func.value.value)
        if isinstance(n, ast.FormattedValue) and n.format_spec is not None:
            return 'format spec `:%s` in an f-string' % unparse(n.format_spec).strip("f'\"")
        if isinstance(n, ast.BinOp) and isinstance(n.op, ast.Mod) and isinstance(n.left, ast.Constant) and isinstance(n.left.value, str):
            import re as _re
            m = _re.search(r'%[-+ #0]*\d*(?:\.\d+)?([diouxXeEfFgG])', n.left.value)
            if m:
                return 'conversion `%s` in %r' % (m.group(0), n.left.value)
        if isinstance(n, ast.Call) and isinstance(n.func, ast.Name) and n.func.id in ('round', 'int', 'format') and n.args:
            if n.func.id != 'format' or (len(n.args) > 1 and nf.const_value(n.args[1], '') != ''):
                return '%s(...)' % n.func.id
    return None


def _percentage_value_roundtrip(r, idx, fi, C, env):
    """The validated tolerance is what percentage_as_number parses later: the returned string must reproduce the parsed
    number exactly (plain str()/repr()/'{}' formatting or the stripped input itself), not a precision-limited rendering."""
    rets = [x for x in lib.returns_of(fi.node) if x.value is not None and not (isinstance(x.value, ast.Constant) and x.value.value is None)]
    if not rets:
        r.undecided(C + ': value', 'no value is returned', fi.loc)
        return
    for x in rets:
        v = fl.expand(x.value, env)
        where = lib.loc(fi, x)
        lossy = _lossy_text(v)
        names = {n.id for n in ast.walk(v) if isinstance(n, ast.Name)}
        carries = any(_percent_sources(idx, fi, ast.Name(id=n, ctx=ast.Load()), env) for n in names) or \
            bool(names & set(fi.params)) or any(nf.match('float(_W[:-1])', n) is not None for n in ast.walk(v))
        if lossy:
            r.violation(C + ': value', 'the validated tolerance is re-rendered with a precision-limiting conversion (%s): the percentage '
                        "that reaches percentage_as_number is no longer the author's (e.g. '0.0000004%%' becomes '0.000000%%', i.e. an "
                        'exact-match tolerance, and 12 significant digits are cut to 6 decimals)' % lossy, where,
                        expected="'{percent}%'.format(percent=percent)", found=unparse(x.value))
        elif carries:
            r.ok(C + ': value', 'returns the parsed number rendered without a format spec (round-trips through float())', where)
        else:
            r.undecided(C + ': value', 'returned value not traced to the parsed percentage: %s' % short(v), where)


def _nan_refused_elsewhere(fi, pv):
    return any(isinstance(c, ast.Call) and nf.callee_name(c) == 'isnan' and fl.mentions(c, pv) for c in walk_own(fi.node))


def _nonneg_positive(r, idx):
    if True:
        # NonNegative / Positive
        for fn, pats, bad in (('NonNegative', ["All(_T, Range(0, float('inf')))", "All(_T, Range(min=0))", "All(_T, Range(0, None))"],
                               'negative'),):
            fi = idx.func('mitxgraders.helpers.validatorfuncs.' + fn)
            ps = vd.return_terms(fi.node)
            if len(ps) != 1:
                raise AnalysisError('%s: expected a single return' % fn)
            res = nf.classify([p.replace('_T', fi.params[0]) for p in pats], ps[0][1])
            r.verdict(fn, res, lib.loc(fi, ps[0][2]), ok_detail='All(type, Range(0, inf))', expected=pats[0])
        fi = idx.func('mitxgraders.helpers.validatorfuncs.Positive')
        got = {}
        for guards, term, stmt in vd.return_terms(fi.node):
            is_int = any(nf.match('%s == int' % fi.params[0], g) is not None or nf.match('%s is int' % fi.params[0], g) is not None
                         for g in guards)
            got['int' if is_int else 'other'] = (term, stmt)
        if 'int' in got:
            term, stmt = got['int']
            res = nf.classify(["All(%s, Range(1, float('inf')))" % fi.params[0], "All(%s, Range(min=1))" % fi.params[0]], term)
            r.verdict('Positive(int)', res, lib.loc(fi, stmt), ok_detail='All(int, Range(1, inf))', expected='Range(1, inf)')
        else:
            r.undecided('Positive(int)', 'integer branch not recognised', fi.loc)


def _is_float(s):
    try:
        float(s)
        return True
    except ValueError:
        return False


def strip_tail_raise(fi):
    """Every path through the function either returns a value under the percent checks or raises."""
    cfg = cfg_of(fi.node)
    falls = [p for p, lab in cfg.exit_return.preds if not (p.kind == 'stmt' and isinstance(p.ast, ast.Return))]
    bare = [x for x in lib.returns_of(fi.node) if x.value is None or (isinstance(x.value, ast.Constant) and x.value.value is None)]
    return not falls and not bare


# ------------------------------------------------------------------------ self-test
_FG_LOOP_HEAD = ("            funclist.update(func_samples[i])\n            varlist.update(var_samples[i])\n\n"
                 "            def scoped_eval(expression,")

_CONS_LOOP = "        num_failures = 0\n        for result in results:\n            if result['ok'] != True:\n                num_failures += 1\n                if len(results) == 1 or num_failures > failable_evals:\n                    return result\n"

MUTANTS = [
    # D1
    Mutant('tol-strict', MF, "    return np.linalg.norm(difference) <= tolerance\n\ndef is_nearly_zero",
           "    return np.linalg.norm(difference) < tolerance\n\ndef is_nearly_zero", 'D1'),
    Mutant('tol-inverted', MF, "    return np.linalg.norm(difference) <= tolerance\n\ndef is_nearly_zero",
           "    return np.linalg.norm(difference) >= tolerance\n\ndef is_nearly_zero", 'D1'),
    Mutant('pct-relative-to-student', MF, "        tolerance = np.linalg.norm(x) * percentage_as_number(tolerance)\n\n    difference",
           "        tolerance = np.linalg.norm(y) * percentage_as_number(tolerance)\n\n    difference", 'D1'),
    Mutant('pct-not-scaled', MF, "        tolerance = np.linalg.norm(x) * percentage_as_number(tolerance)\n\n    difference",
           "        tolerance = percentage_as_number(tolerance)\n\n    difference", 'D1'),
    Mutant('difference-is-sum', MF, "    difference = x - y\n", "    difference = x + y\n", 'D1'),
    Mutant('inf-clause-removed', MF, "    if isinstance(x, Number):\n        if x == inf or y == inf or x == -inf or y == -inf:\n            return x == y\n",
           "", 'D1'),
    Mutant('inf-clause-forgets-student', MF, "        if x == inf or y == inf or x == -inf or y == -inf:", "        if x == inf or x == -inf:", 'D1'),
    Mutant('inf-matches-anything', MF, "        if x == inf or y == inf or x == -inf or y == -inf:\n            return x == y",
           "        if x == inf or y == inf or x == -inf or y == -inf:\n            return True", 'D1'),
    Mutant('inf-clause-abs', MF, "        if x == inf or y == inf or x == -inf or y == -inf:\n            return x == y",
           "        if x == inf or y == inf or x == -inf or y == -inf:\n            return x != y", 'D1'),
    Mutant('seeded-infinity-membership-loses-minus-x', MF, "    if isinstance(x, Number):\n        if x == inf or y == inf or x == -inf or y == -inf:\n            return x == y\n",
           "    if isinstance(x, Number) and inf in (x, y, -y):\n        return x == y\n", 'D1'),
    Mutant('percent-factor', MF, "    return float(percent_str.strip()[:-1]) * 0.01", "    return float(percent_str.strip()[:-1]) * 0.1", 'D1'),
    Mutant('percent-not-scaled', MF, "    return float(percent_str.strip()[:-1]) * 0.01", "    return float(percent_str.strip()[:-1])", 'D1'),
    # D2
    Mutant('equality-comparer-swapped', CMP, "        return utils.within_tolerance(expected_eval, student_eval)",
           "        return utils.within_tolerance(student_eval, expected_eval)", 'D2'),
    Mutant('transform-one-side', CMP, "        expected_eval = transform(expected_eval)\n        student_eval = transform(student_eval)\n",
           "        expected_eval = transform(expected_eval)\n", 'D2'),
    Mutant('mixin-utils-swapped', MH, "        def _within_tolerance(x, y):\n            return within_tolerance(x, y, self.config['tolerance'])",
           "        def _within_tolerance(x, y):\n            return within_tolerance(y, x, self.config['tolerance'])", 'D2'),
    Mutant('matrix-utils-swapped', MG, "        def _within_tolerance(x, y):\n            return within_tolerance(x, y, self.config['tolerance'])",
           "        def _within_tolerance(x, y):\n            return within_tolerance(y, x, self.config['tolerance'])", 'D2'),
    Mutant('matrix-utils-fixed-tolerance', MG, "        def _within_tolerance(x, y):\n            return within_tolerance(x, y, self.config['tolerance'])",
           "        def _within_tolerance(x, y):\n            return within_tolerance(x, y, '0.01%')", 'D2'),
    Mutant('seeded-matrixgrader-default-comparer-shadow-removed', MG, "    default_comparer = staticmethod(equality_comparer)\n", "", 'D2'),
    Mutant('compare-evaluations-zip-swapped', MH, "                result = comparer(compare_params_eval, student_eval, utils)",
           "                result = comparer(student_eval, compare_params_eval, utils)", 'D2'),
    Mutant('correlated-swapped', MH, "            result = comparer(compare_params_evals, student_evals, utils)",
           "            result = comparer(student_evals, compare_params_evals, utils)", 'D2'),
    Mutant('raw-check-swapped', FG, "        results = self.compare_evaluations(comparer_params_evals, student_evals,",
           "        results = self.compare_evaluations(student_evals, comparer_params_evals,", 'D2'),
    Mutant('summation-raw-check-swapped', IG, "        results = self.compare_evaluations(instructor_evals, student_evals,",
           "        results = self.compare_evaluations(student_evals, instructor_evals,", 'D2'),
    Mutant('gen-evaluations-return-swapped', FG, "        return comparer_params_evals, student_evals, meta.functions_used",
           "        return student_evals, comparer_params_evals, meta.functions_used", 'D2'),
    Mutant('sum-appends-swapped', IG, "            instructor_evals.append(expected_eval)\n            student_evals.append(student_eval)",
           "            instructor_evals.append(student_eval)\n            student_evals.append(expected_eval)", 'D2'),
    Mutant('only-first-sample-compared', MH, "                result = comparer(compare_params_eval, student_eval, utils)\n                results.append(ItemGrader.standardize_cfn_return(result))\n",
           "                result = comparer(compare_params_eval, student_eval, utils)\n                results.append(ItemGrader.standardize_cfn_return(result))\n                break\n", 'D2'),
    # D3
    Mutant('threshold-ge', MH, "                if len(results) == 1 or num_failures > failable_evals:", "                if len(results) == 1 or num_failures >= failable_evals:", 'D3'),
    Mutant('threshold-and', MH, "                if len(results) == 1 or num_failures > failable_evals:", "                if len(results) == 1 and num_failures > failable_evals:", 'D3'),
    Mutant('single-sample-clause-dropped', MH, "                if len(results) == 1 or num_failures > failable_evals:", "                if num_failures > failable_evals:", 'D3'),
    Mutant('partial-counts-as-pass', MH, "            if result['ok'] != True:\n                num_failures += 1", "            if result['ok'] == False:\n                num_failures += 1", 'D3'),
    Mutant('partial-counts-as-pass-falsy', MH, "            if result['ok'] != True:\n                num_failures += 1", "            if not result['ok']:\n                num_failures += 1", 'D3'),
    Mutant('counter-starts-at-minus-one', MH, "        num_failures = 0\n", "        num_failures = -1\n", 'D3'),
    Mutant('compare-before-increment', MH, "                num_failures += 1\n                if len(results) == 1 or num_failures > failable_evals:\n                    return result\n",
           "                if len(results) == 1 or num_failures > failable_evals:\n                    return result\n                num_failures += 1\n", 'D3'),
    Mutant('skip-first-result', MH, "        for result in results:\n            if result['ok'] != True:", "        for result in results[1:]:\n            if result['ok'] != True:", 'D3'),
    Mutant('seeded-filter-form-without-single-sample-clause', MH, _CONS_LOOP,
           "        failures = [result for result in results if result['ok'] != True]\n        if len(failures) > failable_evals:\n"
           "            return failures[failable_evals]\n", 'D3'),
    Mutant('filter-form-partial-passes', MH, _CONS_LOOP,
           "        failures = [result for result in results if result['ok'] == False]\n"
           "        if failures and (len(results) == 1 or len(failures) > failable_evals):\n            return failures[0]\n", 'D3'),
    Mutant('seeded-entrywise-allclose', MF, "    return np.linalg.norm(difference) <= tolerance\n\ndef is_nearly_zero",
           "    return np.allclose(difference, 0, rtol=0, atol=tolerance)\n\ndef is_nearly_zero", 'D1'),
    Mutant('entrywise-all-abs', MF, "    return np.linalg.norm(difference) <= tolerance\n\ndef is_nearly_zero",
           "    return bool(np.all(np.abs(difference) <= tolerance))\n\ndef is_nearly_zero", 'D1'),
    Mutant('entrywise-max-abs', MF, "    return np.linalg.norm(difference) <= tolerance\n\ndef is_nearly_zero",
           "    return np.max(np.abs(difference)) <= tolerance\n\ndef is_nearly_zero", 'D1'),
    # D4
    Mutant('credit-multiplication-dropped', FG, "            result['grade_decimal'] *= answer['grade_decimal']\n", "            pass\n", 'D4'),
    Mutant('seeded-ok-recomputed-for-all-results', FG, "            if result['ok'] == 'partial':\n                # Scaling may have taken partial credit down to zero\n                result['ok'] = self.grade_decimal_to_ok(result['grade_decimal'])\n",
           "            result['ok'] = self.grade_decimal_to_ok(result['grade_decimal'])\n", 'D4'),
    Mutant('ok-recomputed-unless-false', FG, "            if result['ok'] == 'partial':\n                # Scaling", "            if result['ok'] is not False:\n                # Scaling", 'D4'),
    Mutant('seeded-failable-zero-for-every-comparer', FG, "        consolidated = self.consolidate_results(results, answer, self.config['failable_evals'])",
           "        from mitxgraders.comparers import Comparer\n        failable_evals = 0 if isinstance(comparer, Comparer) else self.config['failable_evals']\n        consolidated = self.consolidate_results(results, answer, failable_evals)", 'D4'),
    Mutant('seeded-percentage-fixed-point', VF, "                return \"{percent}%\".format(percent=percent)", "                return \"{percent:f}%\".format(percent=percent)", 'D5'),
    Mutant('percentage-rounded', VF, "                return \"{percent}%\".format(percent=percent)", "                return \"%.3g%%\" % percent", 'D5'),
    Mutant('seeded-agreed-record-keeps-ok-true', MH, "        if answer is None:\n            answer = {'ok': True, 'grade_decimal': 1, 'msg': ''}\n        \n        # answer can contain extra keys, so prune them\n        pruned_answer = {key: answer[key] for key in ['ok', 'grade_decimal', 'msg']}\n",
           "        pruned_answer = dict(ok=True, grade_decimal=1, msg='')\n        if answer is not None:\n            pruned_answer.update(grade_decimal=answer['grade_decimal'], msg=answer['msg'])\n", 'D3'),
    Mutant('seeded-sample-generator-peeked-with-next', FG, '    def gen_evaluations(self, comparer_params, student_input, sibling_formulas,\n                        var_samples, func_samples):\n        """\n        Evaluate the comparer parameters and student inputs for the given samples.\n\n        Returns:\n            A tuple (list, list, set). The first two lists are comparer_params_evals\n            and student_evals. These have length equal to number of samples specified\n            in config. The set is a record of mathematical functions used in the\n            student\'s input.\n        """\n        funclist = self.functions.copy()\n        varlist = {}\n\n        comparer_params_evals = []\n        student_evals = []\n\n        # Create a list of instructor and sibling variables to remove from student evaluation\n        sibling_vars = [key for key in sibling_formulas]\n        var_blacklist = []\n        for var in self.config[\'instructor_vars\']:\n            if var in var_samples[0]:\n                var_blacklist.append(var)\n        var_blacklist += sibling_vars\n\n        for i in range(self.config[\'samples\']):\n            # Update the functions and variables listings with this sample\n            funclist.update(func_samples[i])\n            varlist.update(var_samples[i])\n\n            def scoped_eval(expression,\n                            variables=varlist,\n                            functions=funclist,\n                            suffixes=self.suffixes,\n                            max_array_dim=self.config[\'max_array_dim\']):\n                return evaluator(expression, variables, functions, suffixes, max_array_dim,\n                                 allow_inf=self.config[\'allow_inf\'])\n\n            # Compute expressions\n            comparer_params_eval = self.eval_and_validate_comparer_params(scoped_eval, comparer_params)\n            comparer_params_evals.append(comparer_params_eval)\n\n            # Before performing student evaluation, scrub the sibling and instructor\n            # variables so that students can\'t use them\n            for key in var_blacklist:\n                del varlist[key]\n\n            student_eval, meta = scoped_eval(student_input)\n            student_evals.append(student_eval)\n\n            if self.config[\'debug\']:\n                # Put the siblings and instructor variables back in for the debug output\n                varlist.update(var_samples[i])\n                self.log_eval_info(i, varlist, funclist,\n                                   comparer_params_eval=comparer_params_eval,\n                                   student_eval=student_eval)\n\n        return comparer_params_evals, student_evals, meta.functions_used\n\n', '    def sample_scopes(self, var_samples, func_samples):\n        """Generate the (variables, functions) scope of each sample in turn"""\n        funclist = self.functions.copy()\n        varlist = {}\n        for variables, functions in zip(var_samples, func_samples):\n            # Update the functions and variables listings with this sample\n            funclist.update(functions)\n            varlist.update(variables)\n            yield varlist, funclist\n\n    def student_blacklist(self, scopes, sibling_formulas):\n        """\n        Create a list of instructor and sibling variables to remove from student\n        evaluation. Instructor variables that are not actually sampled are ignored.\n        """\n        blacklist = list(sibling_formulas)\n        instructor_vars = self.config[\'instructor_vars\']\n        if instructor_vars:\n            # Every sample has the same names, so it is enough to look at one scope\n            sampled, _ = next(scopes)\n            blacklist += [var for var in instructor_vars if var in sampled]\n        return blacklist\n\n    def evaluate_sample(self, comparer_params, student_input, varlist, funclist, var_blacklist):\n        """\n        Evaluate the comparer parameters and the student input in a single scope.\n        Returns both, along with the set of functions used in the student\'s input.\n        """\n        def scoped_eval(expression,\n                        variables=varlist,\n                        functions=funclist,\n                        suffixes=self.suffixes,\n                        max_array_dim=self.config[\'max_array_dim\']):\n            return evaluator(expression, variables, functions, suffixes, max_array_dim,\n                             allow_inf=self.config[\'allow_inf\'])\n\n        # Compute expressions\n        comparer_params_eval = self.eval_and_validate_comparer_params(scoped_eval, comparer_params)\n\n        # Perform the student evaluation without the sibling and instructor\n        # variables, so that students can\'t use them\n        student_vars = {key: varlist[key] for key in varlist if key not in var_blacklist}\n        student_eval, meta = scoped_eval(student_input, variables=student_vars)\n\n        return comparer_params_eval, student_eval, meta.functions_used\n\n    def gen_evaluations(self, comparer_params, student_input, sibling_formulas,\n                        var_samples, func_samples):\n        """\n        Evaluate the comparer parameters and student inputs for the given samples.\n\n        Returns:\n            A tuple (list, list, set). The first two lists are comparer_params_evals\n            and student_evals. These have length equal to number of samples specified\n            in config. The set is a record of mathematical functions used in the\n            student\'s input.\n        """\n        scopes = self.sample_scopes(var_samples, func_samples)\n        var_blacklist = self.student_blacklist(scopes, sibling_formulas)\n\n        comparer_params_evals = []\n        student_evals = []\n        functions_used = set()\n\n        for i, (varlist, funclist) in enumerate(scopes):\n            (comparer_params_eval,\n             student_eval,\n             functions_used) = self.evaluate_sample(comparer_params, student_input,\n                                                    varlist, funclist, var_blacklist)\n            comparer_params_evals.append(comparer_params_eval)\n            student_evals.append(student_eval)\n\n            if self.config[\'debug\']:\n                # The variables listing still holds the siblings and instructor variables\n                self.log_eval_info(i, varlist, funclist,\n                                   comparer_params_eval=comparer_params_eval,\n                                   student_eval=student_eval)\n\n        return comparer_params_evals, student_evals, functions_used\n\n', 'D4'),
    Mutant('credit-added', FG, "            result['grade_decimal'] *= answer['grade_decimal']\n", "            result['grade_decimal'] += answer['grade_decimal']\n", 'D4'),
    Mutant('failable-evals-ignored', FG, "        consolidated = self.consolidate_results(results, answer, self.config['failable_evals'])",
           "        consolidated = self.consolidate_results(results, answer, 0)", 'D4'),
    Mutant('failable-evals-is-samples', IG, "        consolidated = self.consolidate_results(results, None, self.config['failable_evals'])",
           "        consolidated = self.consolidate_results(results, None, self.config['samples'])", 'D4'),
    Mutant('student-sees-next-sample', FG, "            for key in var_blacklist:\n                del varlist[key]\n\n            student_eval, meta",
           "            for key in var_blacklist:\n                del varlist[key]\n            varlist.update(var_samples[(i + 1) % len(var_samples)])\n\n            student_eval, meta", 'D4'),
    Mutant('sample-loaded-after-author', FG, "            varlist.update(var_samples[i])\n\n            def scoped_eval(expression,", "            def scoped_eval(expression,", 'D4',
           note='varlist only refreshed in the debug branch'),
    Mutant('sweep-second-sample-membership', FG, "            if var in var_samples[0]:", "            if var in var_samples[1]:", 'D4'),
    Mutant('always-first-sample', FG, "            funclist.update(func_samples[i])\n            varlist.update(var_samples[i])\n\n            def scoped_eval",
           "            funclist.update(func_samples[i])\n            varlist.update(var_samples[0])\n\n            def scoped_eval", 'D4'),
    Mutant('one-sample-fewer', FG, "        for i in range(self.config['samples']):\n            # Update the functions and variables listings with this sample\n            funclist.update(func_samples[i])\n            varlist.update(var_samples[i])\n\n            def scoped_eval",
           "        for i in range(self.config['samples'] - 1):\n            # Update the functions and variables listings with this sample\n            funclist.update(func_samples[i])\n            varlist.update(var_samples[i])\n\n            def scoped_eval", 'D4'),
    Mutant('sum-student-on-fresh-scope', IG, "                student_input['summation_variable'],\n                varscope=varlist,",
           "                student_input['summation_variable'],\n                varscope=dict(var_samples[0]),", 'D4'),
    # D5
    Mutant('tolerance-any-number', MH, "        Required('tolerance', default='0.01%'): Any(PercentageString, NonNegative(Number)),",
           "        Required('tolerance', default='0.01%'): Any(PercentageString, Number),", 'D5'),
    Mutant('tolerance-zero-refused', FG, "            Required('tolerance', default='5%'): Any(PercentageString, NonNegative(Number)),",
           "            Required('tolerance', default='5%'): Any(PercentageString, Positive(Number)),", 'D5'),
    Mutant('negative-percentage-accepted', VF, "                if not percent >= 0:\n                    raise Invalid(\"Cannot have a negative percentage\")\n", "", 'D5'),
    Mutant('zero-percent-refused', VF, "                if not percent >= 0:", "                if not percent > 0:", 'D5'),
    Mutant('numerical-samples-unpinned', FG, "            Required('samples', default=1): 1,", "            Required('samples', default=1): Positive(int),", 'D5'),
    Mutant('numerical-failable-unpinned', FG, "            Required('failable_evals', default=0): 0\n", "            Required('failable_evals', default=0): NonNegative(int)\n", 'D5'),
    Mutant('nonnegative-from-one', VF, "    return All(thetype, Range(0, float('inf')))\n\ndef PercentageString", "    return All(thetype, Range(1, float('inf')))\n\ndef PercentageString", 'D5'),
]

BENIGN = [
    Benign('difference-reversed', MF, "    difference = x - y\n", "    difference = y - x\n"),
    Benign('tolerance-inlined', MF, "    difference = x - y\n\n    return np.linalg.norm(difference) <= tolerance",
           "    return np.linalg.norm(x - y) <= tolerance"),
    Benign('tolerance-explicit-else', MF, "        tolerance = np.linalg.norm(x) * percentage_as_number(tolerance)\n\n    difference = x - y\n\n    return np.linalg.norm(difference) <= tolerance",
           "        limit = percentage_as_number(tolerance) * np.linalg.norm(x)\n    else:\n        limit = tolerance\n    return limit >= np.linalg.norm(x - y)"),
    Benign('percent-div-100', MF, "    return float(percent_str.strip()[:-1]) * 0.01", "    value = float(percent_str.strip()[:-1])\n    return value / 100"),
    Benign('failure-test-is-not', MH, "            if result['ok'] != True:\n                num_failures += 1", "            if result['ok'] is not True:\n                num_failures += 1"),
    Benign('threshold-reordered', MH, "                if len(results) == 1 or num_failures > failable_evals:", "                if failable_evals < num_failures or 1 == len(results):"),
    Benign('equality-comparer-temporaries', CMP, "        return utils.within_tolerance(expected_eval, student_eval)",
           "        lhs, rhs = expected_eval, student_eval\n        return utils.within_tolerance(lhs, rhs)"),
    Benign('log-between-evaluations', FG, "            for key in var_blacklist:\n                del varlist[key]\n\n            student_eval, meta",
           "            for key in var_blacklist:\n                del varlist[key]\n            self.log('evaluating student input')\n\n            student_eval, meta"),
    Benign('credit-explicit-product', FG, "            result['grade_decimal'] *= answer['grade_decimal']\n",
           "            result['grade_decimal'] = answer['grade_decimal'] * result['grade_decimal']\n"),
    Benign('consolidate-filter-form', MH, _CONS_LOOP,
           "        failures = [result for result in results if result['ok'] is not True]\n"
           "        if failures and (len(results) == 1 or len(failures) > failable_evals):\n"
           "            return failures[0 if len(results) == 1 else failable_evals]\n"),
    Benign('infinity-test-any-form', MF, "    inf = float('inf')\n    if isinstance(x, Number):\n        if x == inf or y == inf or x == -inf or y == -inf:\n            return x == y\n",
           "    if isinstance(x, Number) and any(v == b for b in (float('inf'), -float('inf')) for v in (x, y)):\n        return x == y\n"),
    Benign('tolerance-helper-extracted', MF, "    if isinstance(tolerance, str):\n        tolerance = np.linalg.norm(x) * percentage_as_number(tolerance)\n\n    difference = x - y\n\n    return np.linalg.norm(difference) <= tolerance\n\ndef is_nearly_zero",
           "    max_distance = _as_absolute_tolerance(tolerance, x)\n    return np.linalg.norm(x - y) <= max_distance\n\ndef _as_absolute_tolerance(tolerance, reference):\n    if not isinstance(tolerance, str):\n        return tolerance\n    return np.linalg.norm(reference) * percentage_as_number(tolerance)\n\ndef is_nearly_zero"),
    Benign('compare-evaluations-comprehension', MH, "        results = []\n        if isinstance(comparer, CorrelatedComparer):\n            result = comparer(compare_params_evals, student_evals, utils)\n            results.append(ItemGrader.standardize_cfn_return(result))\n        else:\n            for compare_params_eval, student_eval in zip(compare_params_evals, student_evals):\n                result = comparer(compare_params_eval, student_eval, utils)\n                results.append(ItemGrader.standardize_cfn_return(result))\n",
           "        if isinstance(comparer, CorrelatedComparer):\n            comparer_inputs = [(compare_params_evals, student_evals)]\n        else:\n            comparer_inputs = zip(compare_params_evals, student_evals)\n        standardize = ItemGrader.standardize_cfn_return\n        results = [standardize(comparer(params, student, utils)) for params, student in comparer_inputs]\n"),
    Benign('consolidate-lazy-generator', MH, _CONS_LOOP,
           "        failed_results = (result for result in results if result['ok'] != True)\n        for num_failures, failed_result in enumerate(failed_results, start=1):\n            if len(results) == 1 or num_failures > failable_evals:\n                return failed_result\n"),
    Benign('percentage-string-helper', VF, "    if isinstance(value, str):\n        work = value.strip()\n        if work.endswith(\"%\"):\n            try:\n                percent = float(work[:-1])\n                # (written this way so that 'nan%' is refused too: nan < 0 is False)\n                if not percent >= 0:\n                    raise Invalid(\"Cannot have a negative percentage\")\n                return \"{percent}%\".format(percent=percent)\n            except Invalid:\n                raise\n            except Exception:\n                pass\n\n    raise Invalid(\"Not a valid percentage string\")\n",
           "    percent = _percentage_value(value.strip()) if isinstance(value, str) else None\n    if percent is None:\n        raise Invalid(\"Not a valid percentage string\")\n    if not percent >= 0:\n        raise Invalid(\"Cannot have a negative percentage\")\n    return \"{percent}%\".format(percent=percent)\n\ndef _percentage_value(text):\n    if not text.endswith(\"%\"):\n        return None\n    try:\n        return float(text[:-1])\n    except Exception:\n        return None\n"),
    Benign('ok-recomputed-unless-true', FG, "            if result['ok'] == 'partial':\n                # Scaling", "            if result['ok'] is not True:\n                # Scaling"),
    Benign('failable-zero-for-correlated-comparers', FG, "        consolidated = self.consolidate_results(results, answer, self.config['failable_evals'])",
           "        from mitxgraders.comparers import CorrelatedComparer\n        failable_evals = 0 if isinstance(comparer, CorrelatedComparer) else self.config['failable_evals']\n        consolidated = self.consolidate_results(results, answer, failable_evals)"),
    Benign('percentage-fstring', VF, "                return \"{percent}%\".format(percent=percent)", "                return f\"{percent}%\""),
    Benign('positive-bounds-local', VF, "        return All(thetype, Range(1, float('inf')))\n    else:\n        return All(thetype, Range(0, float('inf')), NotIn([0]))\n",
           "        bounds = [Range(1, float('inf'))]\n    else:\n        bounds = [Range(0, float('inf')), NotIn([0])]\n    return All(thetype, *bounds)\n"),
    Benign('utils-fields-helper', MH, "        def _within_tolerance(x, y):\n            return within_tolerance(x, y, self.config['tolerance'])\n        \n        return self.Utils(tolerance=self.config['tolerance'],\n                          within_tolerance=_within_tolerance)\n",
           "        return self.Utils(**self._comparer_utils_fields())\n\n    def _comparer_utils_fields(self):\n        def _within_tolerance(x, y):\n            return within_tolerance(x, y, self.config['tolerance'])\n        return {'tolerance': self.config['tolerance'], 'within_tolerance': _within_tolerance}\n"),
    Benign('infinity-membership-complete', MF, "    if isinstance(x, Number):\n        if x == inf or y == inf or x == -inf or y == -inf:\n            return x == y\n",
           "    if isinstance(x, Number) and inf in (x, y, -x, -y):\n        return x == y\n"),
    Benign('delegates-to-is-nearly-zero', MF, "    if isinstance(tolerance, str):\n        tolerance = np.linalg.norm(x) * percentage_as_number(tolerance)\n\n    difference = x - y\n\n    return np.linalg.norm(difference) <= tolerance\n\ndef is_nearly_zero",
           "    return is_nearly_zero(x - y, tolerance, reference=x)\n\ndef is_nearly_zero"),
    Benign('agreed-record-updated-from-answer', MH, "        if answer is None:\n            answer = {'ok': True, 'grade_decimal': 1, 'msg': ''}\n        \n        # answer can contain extra keys, so prune them\n        pruned_answer = {key: answer[key] for key in ['ok', 'grade_decimal', 'msg']}\n",
           "        pruned_answer = dict(ok=True, grade_decimal=1, msg='')\n        if answer is not None:\n            pruned_answer.update(ok=answer['ok'], grade_decimal=answer['grade_decimal'], msg=answer['msg'])\n"),
    Benign('transform-both-in-one-map', CMP, "        expected_eval = transform(expected_eval)\n        student_eval = transform(student_eval)\n",
           "        expected_eval, student_eval = [transform(value) for value in (expected_eval, student_eval)]\n"),
    Benign('tolerance-any-order', MH, "        Required('tolerance', default='0.01%'): Any(PercentageString, NonNegative(Number)),",
           "        Required('tolerance', default='0.01%'): Any(NonNegative(Number), PercentageString),"),
]
