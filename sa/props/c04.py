"""C04 -- a formula is marked correct exactly when enough samples agree within tolerance."""
import ast

from ..index import AnalysisError, walk_own, walk_all, unparse, short, ancestors, enclosing_stmt
from ..cfg import cfg_of
from .. import nf, lib
from ..selftest import Mutant, Benign
from . import _c04_flow as fl

ID = 'C04'
MF = 'mitxgraders/helpers/calc/mathfuncs.py'
MH = 'mitxgraders/helpers/math_helpers.py'
FG = 'mitxgraders/formulagrader/formulagrader.py'
IG = 'mitxgraders/formulagrader/integralgrader.py'
MG = 'mitxgraders/formulagrader/matrixgrader.py'
CMP = 'mitxgraders/comparers/comparers.py'
VF = 'mitxgraders/helpers/validatorfuncs.py'
FILES = [MF, MH, FG, IG, MG, CMP, VF]

EXPLANATION = (
    "Normal-form, role and ordering rules over the resolved program (reference decision: DESIGN Appendix A4): "
    "(D1) every value-returning path of within_tolerance is `norm(x - y) <= t` with a non-strict <=, t being the "
    "tolerance or, under isinstance(tolerance, str), norm(x) * percentage_as_number(tolerance) (relative to the FIRST "
    "argument); the infinity clause returns x == y for numbers when either side is +-inf; percentage_as_number is "
    "float(s.strip()[:-1]) * 0.01; (D2) argument roles author/student are preserved at every hop gen_evaluations -> "
    "raw_check -> compare_evaluations -> comparer -> utils.within_tolerance -> within_tolerance, for both "
    "get_comparer_utils implementations and both raw_check implementations, and the default comparer is "
    "equality_comparer; (D3) consolidate_results counts exactly the results whose ok is not True and returns the "
    "failing result iff len(results) == 1 or failures > failable_evals, else the pruned answer; (D4) author and "
    "student are evaluated in the same iteration of one loop over range(config['samples']) on the same scope "
    "objects with only deletions in between, the i-th sample is loaded each iteration, and raw_check multiplies "
    "every comparer grade by the answer's credit before consolidating with config['failable_evals']; (D5) the "
    "tolerance/samples/failable_evals schema entries and PercentageString/NonNegative.")
NOT_DECIDED = ("that algebraically identical rewrites agree numerically within the tolerance (floating point); the value "
               "of numpy's norm; behaviour of author-supplied comparers and transforms.")
ASSUMPTIONS = ["np.linalg.norm is the Frobenius/Euclidean norm and is symmetric in the sign of its argument",
               "author-supplied comparers use utils.within_tolerance(expected, student) as documented"]

WT = 'mitxgraders.helpers.calc.mathfuncs.within_tolerance'
PAN = 'mitxgraders.helpers.calc.mathfuncs.percentage_as_number'
MM = 'mitxgraders.helpers.math_helpers.MathMixin'
FGC = 'mitxgraders.formulagrader.formulagrader.FormulaGrader'
NGC = 'mitxgraders.formulagrader.formulagrader.NumericalGrader'
MGC = 'mitxgraders.formulagrader.matrixgrader.MatrixGrader'
SGB = 'mitxgraders.formulagrader.integralgrader.SummationGraderBase'
IGC = 'mitxgraders.formulagrader.integralgrader.IntegralGrader'
SGC = 'mitxgraders.formulagrader.integralgrader.SumGrader'
EQC = 'mitxgraders.comparers.comparers.EqualityComparer'


def check(ctx):
    idx = ctx.index
    d1_within_tolerance(ctx, idx)
    d1_percentage(ctx, idx)
    d2_roles(ctx, idx)
    d3_consolidate(ctx, idx)
    d4_samples(ctx, idx)
    d4_credit(ctx, idx)
    d5_tables(ctx, idx)


# ----------------------------------------------------------------------------- D1
def _is_norm(idx, module, func):
    return idx.dotted_of(module, func) in ('numpy.linalg.norm', 'numpy.linalg.linalg.norm')


def _inf_atom(e, params):
    """(param, sign) if e is `<param> == float('inf')` / `<param> == -float('inf')` (either order)."""
    if not (isinstance(e, ast.Compare) and len(e.ops) == 1 and isinstance(e.ops[0], ast.Eq)):
        return None
    for a, b in ((e.left, e.comparators[0]), (e.comparators[0], e.left)):
        if isinstance(a, ast.Name) and a.id in params:
            sign = 1
            if isinstance(b, ast.UnaryOp) and isinstance(b.op, ast.USub):
                sign, b = -1, b.operand
            if nf.match("float('inf')", b) is not None or nf.match("np.inf", b) is not None \
                    or nf.match("math.inf", b) is not None:
                return a.id, sign
            if nf.match("float('-inf')", b) is not None:
                return a.id, -sign
    return None


def _mentions_inf(node):
    for n in ast.walk(node):
        if isinstance(n, ast.Constant) and isinstance(n.value, str) and n.value.strip('+-').lower() in ('inf', 'infinity'):
            return True
        if isinstance(n, ast.Attribute) and n.attr in ('inf', 'isinf', 'isfinite', 'infty'):
            return True
        if isinstance(n, ast.Name) and n.id in ('isinf', 'isfinite'):
            return True
    return False


def d1_within_tolerance(ctx, idx):
    r = ctx.rule('D1.TOL', 'within_tolerance decides norm(x - y) <= t (non-strict), t absolute or a percentage of '
                 'norm(x); +-inf only equals itself', floor=5)
    with r:
        fi = idx.func(WT)
        if len(fi.params) != 3:
            raise AnalysisError('within_tolerance no longer has three parameters')
        px, py, pt = fi.params
        C = 'within_tolerance'
        paths = nf.decision_paths(fi.node.body)
        inf_paths, tol_paths = [], []
        for p in paths:
            where = lib.loc(fi, p.leaf.stmt) if p.leaf.stmt is not None else fi.loc
            if p.leaf.kind == 'fall':
                r.violation(C, 'a path falls off the end and returns None (falsy): matching values are graded wrong '
                            '(guards: %s)' % (' and '.join(unparse(g) for g in p.guards) or 'none'), where)
                continue
            if p.leaf.kind == 'raise':
                r.undecided(C, 'unreviewed raise inside within_tolerance: %s' % short(p.leaf.stmt), where)
                continue
            atoms = []
            pos_inf = False
            for g in p.guards:
                ds = nf.disjuncts(g)
                got = [_inf_atom(d, (px, py)) for d in ds]
                if got and all(a is not None for a in got):
                    pos_inf = True
                    atoms.extend(got)
            if pos_inf:
                inf_paths.append((p, atoms, where))
            else:
                tol_paths.append((p, where))
        # ---- infinity clause
        if not inf_paths:
            if _mentions_inf(fi.node):
                r.undecided(C + ': infinity clause', 'infinities are handled in a form that is not recognised', fi.loc)
            else:
                r.violation(C + ': infinity clause', 'no path handles infinite operands: inf - inf is nan and nan <= t is False, '
                            'so an infinite answer no longer matches the same infinity (and inf matches nothing)', fi.loc,
                            expected='if x or y is +-inf: return x == y')
        for p, atoms, where in inf_paths:
            have = set(atoms)
            want = {(px, 1), (px, -1), (py, 1), (py, -1)}
            if have != want:
                missing = sorted('%s == %sinf' % (n, '-' if s < 0 else '') for n, s in want - have)
                r.violation(C + ': infinity clause', 'the infinity test no longer covers %s: such a value falls through to the '
                            'norm comparison (nan / inf <= t)' % ', '.join(missing), where,
                            expected='x == inf or y == inf or x == -inf or y == -inf')
            res = nf.classify('%s == %s' % (px, py), p.leaf.expr)
            if res == nf.MATCH:
                r.ok(C + ': infinity clause', 'returns x == y when either operand is +-inf', where)
            elif isinstance(p.leaf.expr, ast.Constant):
                r.violation(C + ': infinity clause', 'an infinite operand yields the constant %r instead of x == y'
                            % p.leaf.expr.value, where, expected='x == y', found=unparse(p.leaf.expr))
            elif isinstance(res, tuple):
                r.violation(C + ': infinity clause', res[1], where, expected='x == y', found=unparse(p.leaf.expr))
            else:
                r.undecided(C + ': infinity clause', 'result for infinite operands not recognised: %s' % short(p.leaf.expr), where)
            num_guard = [g for g in p.guards if nf.match('isinstance(_V, _T)', g) is not None]
            ok_guard = any(nf.match('isinstance(%s, _T)' % n, g) is not None and
                           unparse(nf.match('isinstance(%s, _T)' % n, g)['_T']).split('.')[-1] in ('Number', 'Real', 'float')
                           for g in num_guard for n in (px, py))
            if ok_guard:
                r.ok(C + ': infinity clause [numbers only]', 'guarded by isinstance(x, Number)', where)
            elif len(p.guards) == 1:
                r.violation(C + ': infinity clause [numbers only]', 'the infinity test is no longer restricted to numbers: for array '
                            'operands `x == inf or ...` has no truth value and grading of every array answer fails', where,
                            expected='isinstance(x, Number)')
            else:
                r.undecided(C + ': infinity clause [numbers only]', 'guards not recognised: %s'
                            % ' and '.join(unparse(g) for g in p.guards), where)
        # ---- tolerance comparison
        seen_pct = seen_abs = False
        for p, where in tol_paths:
            leaf = p.leaf.expr
            pos = any(nf.match('isinstance(%s, str)' % pt, g) is not None for g in p.guards)
            neg = any(nf.match('not isinstance(%s, str)' % pt, g) is not None for g in p.guards)
            tag = 'percentage' if pos else 'absolute'
            b = {}
            res = nf.classify('_NORM(_A - _B) <= _T', leaf, b)
            if isinstance(res, tuple):
                r.violation(C + ': comparison [%s]' % tag, res[1] + ' -- the decision is no longer norm(x - y) <= tolerance '
                            '(a value exactly at the tolerance must pass, a larger one must fail)', where,
                            expected='norm(x - y) <= tolerance', found=unparse(leaf))
                continue
            if res != nf.MATCH:
                if isinstance(leaf, ast.Constant):
                    r.violation(C + ': comparison [%s]' % tag, 'returns the constant %r instead of comparing' % leaf.value, where)
                else:
                    r.undecided(C + ': comparison [%s]' % tag, 'decision expression not recognised: %s' % short(leaf), where)
                continue
            norm_ok = isinstance(b['_NORM'], (ast.Attribute, ast.Name)) and _is_norm(idx, fi.module, b['_NORM'])
            roles = {fl.name_of(b['_A']), fl.name_of(b['_B'])}
            if not norm_ok:
                r.undecided(C + ': comparison [%s]' % tag, 'norm function not recognised: %s' % short(b['_NORM']), where)
                continue
            if roles != {px, py}:
                if roles <= {px, py}:
                    r.violation(C + ': comparison [%s]' % tag, 'the difference is `%s - %s`: one operand is compared with itself'
                                % (unparse(b['_A']), unparse(b['_B'])), where, expected='%s - %s' % (px, py))
                else:
                    r.undecided(C + ': comparison [%s]' % tag, 'operands of the difference not recognised: %s' % short(leaf), where)
                continue
            T = b['_T']
            if pos and not neg:
                seen_pct = True
                tb = {}
                tres = nf.classify('_N(_R) * percentage_as_number(%s)' % pt, T, tb)
                if tres == nf.MATCH and isinstance(tb['_N'], (ast.Attribute, ast.Name)) and _is_norm(idx, fi.module, tb['_N']):
                    ref = fl.name_of(tb['_R'])
                    if ref == px:
                        r.ok(C + ': comparison [percentage]', 'norm(x - y) <= norm(x) * p, relative to the first argument', where)
                    elif ref == py:
                        r.violation(C + ': comparison [percentage]', 'the percentage is taken of norm(%s), the SECOND argument '
                                    "(the student's value), not of the author's value: e.g. expected 10, student 9.01, 10%% "
                                    'now fails' % py, where, expected='norm(%s) * percentage' % px, found=unparse(T))
                    else:
                        r.undecided(C + ': comparison [percentage]', 'reference of the percentage not recognised: %s' % short(T), where)
                elif isinstance(tres, tuple):
                    r.violation(C + ': comparison [percentage]', tres[1], where,
                                expected='norm(%s) * percentage_as_number(%s)' % (px, pt), found=unparse(T))
                elif isinstance(T, ast.Name) and T.id == pt:
                    r.violation(C + ': comparison [percentage]', 'a percentage string is compared as it stands (no conversion): '
                                'the comparison of a number with a str raises for every percentage tolerance', where)
                else:
                    r.undecided(C + ': comparison [percentage]', 'tolerance term not recognised: %s' % short(T), where)
            else:
                if isinstance(T, ast.Name) and T.id == pt:
                    seen_abs = seen_abs or neg
                    if neg:
                        r.ok(C + ': comparison [absolute]', 'norm(x - y) <= tolerance', where)
                    else:
                        # no isinstance(tolerance, str) test on this path at all
                        seen_abs = True
                        r.ok(C + ': comparison [absolute]', 'norm(x - y) <= tolerance', where)
                else:
                    tb = {}
                    tres = nf.classify('_N(_R) * percentage_as_number(%s)' % pt, T, tb)
                    if tres == nf.MATCH and neg:
                        r.violation(C + ': comparison [absolute]', 'the percentage conversion is applied when the tolerance is NOT a '
                                    'string (test inverted)', where, expected='isinstance(%s, str)' % pt)
                    else:
                        r.undecided(C + ': comparison [absolute]', 'tolerance term not recognised: %s' % short(T), where)
        if tol_paths and not seen_pct:
            r.violation(C + ': comparison [percentage]', 'no path converts a percentage tolerance under isinstance(tolerance, str): '
                        'percentage tolerances are compared as strings', fi.loc,
                        expected='if isinstance(tolerance, str): tolerance = norm(x) * percentage_as_number(tolerance)')
        if tol_paths and not seen_abs:
            r.violation(C + ': comparison [absolute]', 'no path compares against a numeric tolerance as given', fi.loc)


def d1_percentage(ctx, idx):
    r = ctx.rule('D1.PCT', "percentage_as_number('p%') = p * 0.01", floor=1)
    with r:
        fi = idx.func(PAN)
        ps = fi.params[0]
        paths = nf.decision_paths(fi.node.body)
        if len(paths) != 1 or paths[0].leaf.kind != 'ret':
            raise AnalysisError('percentage_as_number: expected a single return')
        leaf = paths[0].leaf.expr
        where = lib.loc(fi, paths[0].leaf.stmt)
        alts = ['float(%s.strip()[:-1]) * 0.01' % ps, 'float(%s.strip()[:-1]) / 100' % ps,
                'float(%s[:-1]) * 0.01' % ps, 'float(%s[:-1]) / 100' % ps,
                "float(%s.strip().rstrip('%%')) * 0.01" % ps, "float(%s.strip().rstrip('%%')) / 100" % ps]
        res = nf.classify(alts, leaf)
        r.verdict('percentage_as_number', res, where, ok_detail='float(s.strip()[:-1]) * 0.01',
                  expected='float(s.strip()[:-1]) * 0.01')
