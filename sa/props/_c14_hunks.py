"""Turn a filed unified diff (/verif/seeded/<id>/patch.diff) into the (old, new) text pairs of a multi-site Mutant / Benign.

Used for the wave-5 seeds ("a refactoring with one slip"): the seed itself is the mutant, the same diff with the slip
corrected is the benign twin.  When the diff is not available (or no longer applies) the pair list is empty / does not
match and the self-test skips the variant ("anchor edited")."""
import os
import re

SEEDED = os.path.join(os.path.dirname(os.path.dirname(os.path.dirname(os.path.abspath(__file__)))), 'seeded')


def hunks(seed_id, relpath, fixes=()):
    path = os.path.join(SEEDED, seed_id, 'patch.diff')
    try:
        with open(path, encoding='utf-8') as f:
            text = f.read()
    except OSError:
        return [('\0missing seed %s\0' % seed_id, '')]
    pairs = []
    for part in re.split(r'(?m)^diff --git ', text):
        if not part.startswith('a/' + relpath + ' '):
            continue
        for h in re.split(r'(?m)^@@ .*?@@.*\n', part)[1:]:
            old, new = [], []
            for line in h.split('\n'):
                if line.startswith('\\'):
                    continue
                if line.startswith('-'):
                    old.append(line[1:])
                elif line.startswith('+'):
                    new.append(line[1:])
                elif line.startswith(' ') or line == '':
                    old.append(line[1:] if line else '')
                    new.append(line[1:] if line else '')
            # the split leaves a trailing empty element for the final newline
            while old and new and old[-1] == '' and new[-1] == '':
                old.pop()
                new.pop()
            o, n = '\n'.join(old) + '\n', '\n'.join(new) + '\n'
            for wrong, right in fixes:
                n = n.replace(wrong, right)
            pairs.append((o, n))
    return pairs or [('\0seed %s does not touch %s\0' % (seed_id, relpath), '')]
