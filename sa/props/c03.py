"""C03 -- formula strings evaluate to what mathematics assigns them."""
import ast
import os
import re

from ..index import AnalysisError, walk_own, unparse, short
from .. import nf, lib
from .. import grammar as G
from ..selftest import Mutant, Benign
from . import _c03_symexec as S
from . import _c03_constfold as CF

ID = 'C03'
EXPR = 'mitxgraders/helpers/calc/expressions.py'
FUNCS = 'mitxgraders/helpers/calc/mathfuncs.py'
FILES = [EXPR, FUNCS]
DOCS = 'docs/grading_math/formula_grader.md'

EXPLANATION = (
    "Term extraction + symbolic evaluation: (D1) the pyparsing grammar built by MathParser.get_grammar is "
    "evaluated abstractly into a term graph; the precedence chain read off it (operand non-terminal of each "
    "`X (op X)*` / `[op] X` level) equals the property's table sum(+,-) < product(*,/) < parallel(||) < unary "
    "minus < power(^ with optional sign) < atom, the atom alternatives are number | function | variable | "
    "parentheses | array with function before variable, the bracketed forms recurse into the top level, the "
    "em-dash is turned into '-'; (D2) every named group the grammar produces has a handler in the `actions` "
    "table of MathExpression.eval, group_if_multiple groups exactly the multi-token results, eval_node "
    "dispatches on the group name; (D3) each level's handler, interpreted symbolically (rational-function "
    "normal form over symbolic operands, uninterpreted pow) on every token list the level can produce with up "
    "to 4 operands, equals the mathematical fold of that level (right fold with sign for ^, left folds with "
    "the accumulator on the left for / and -, reciprocal sum with zero short-circuit for ||); (D4) the number "
    "literal sub-grammar accepts decimal/scientific forms as one contiguous token, eval_number is "
    "float(text)*suffixes[suffix], DEFAULT_SUFFIXES and METRIC_SUFFIXES equal the fixed table and the docs; "
    "(D5) cache key and parse string are the same space-stripped string, evaluator maps None/blank to nan, "
    "nothing changes pyparsing's white-space handling; (D6) whole-string match (stringEnd), non-empty "
    "brackets and argument lists, FOLLOW(atom) admits no juxtaposition and no foreign operator, no doubled "
    "operators except a minus sign, strict max_array_dim refusal fed by eval_array; (D7) scope look-ups use "
    "the parsed token itself (no case folding).")
NOT_DECIDED = ("numeric values (robust_pow, numpy arithmetic, float rounding); pyparsing's matching engine beyond the "
               "modelled constructor semantics; behaviour on array-valued operands (C14).")
ASSUMPTIONS = ["pyparsing constructor semantics as tabulated in sa/grammar.py (ordered choice, greedy repetition, "
               "results-name copies, in-place parse actions)",
               "operands of the evaluators are finite builtin floats in the symbolic model (array operands: C14)"]

MP = 'mitxgraders.helpers.calc.expressions.MathParser'
ME = 'mitxgraders.helpers.calc.expressions.MathExpression'
EMDASH = u'—'

# Appendix A3, loosest level first: (kind, prefix ops, infix ops, optional sign after the operator)
A3 = [
    ('sum', {'+'}, {'+', '-', EMDASH}, set()),
    ('product', set(), {'*', '/'}, set()),
    ('parallel', set(), {'||'}, set()),
    ('negation', {'-', EMDASH}, set(), set()),
    ('power', set(), {'^'}, {'-', EMDASH}),
]
A3_SUFFIXES = {'k': 1e3, 'M': 1e6, 'G': 1e9, 'T': 1e12, 'm': 1e-3, 'u': 1e-6, 'n': 1e-9, 'p': 1e-12}
A3_DEFAULT = {'%': 0.01}
ALLOWED_FOLLOW = {'^', '|', '*', '/', '+', '-', EMDASH, ',', ')', ']', G.END}
OPERATOR_CHARS = {'^', '|', '*', '/', '+', '-', EMDASH}
ATOM_KINDS = ['number', 'function', 'variable', 'parentheses', 'array']


def check(ctx):
    idx = ctx.index
    st = {}
    d1_chain(ctx, idx, st)
    d2_table(ctx, idx, st)
    d2_structural(ctx, idx, st)
    d2_cast(ctx, idx, st)
    d3_folds(ctx, idx, st)
    d4_literals(ctx, idx, st)
    d5_whitespace(ctx, idx, st)
    d6_rejection(ctx, idx, st)
    d6_error_stops(ctx, idx, st)
    d7_case(ctx, idx, st)


def gloc(g, term):
    return '%s:%d' % (g.module.relpath, term.lineno or g.fi.node.lineno)


def opname(s):
    return 'em-dash' if s == EMDASH else s


def opset(s):
    return '{' + ' '.join(sorted(opname(x) for x in s)) + '}'


# ----------------------------------------------------------------------------- D1
def classify_atom(g, alt):
    """Which of the five atom forms an alternative of `atom` is (by structure, not by name)."""
    if alt.kind != 'group':
        return None
    body = alt.kids[0]
    seq = body.kids if body.kind == 'and' and not body.origin else [body]
    first = seq[0]
    lit = g.literal_tokens(first) if first.kind in ('suppress', 'lit') else None
    if lit == {'('} and g.literal_tokens(seq[-1]) == {')'}:
        return 'parentheses'
    if lit == {'['} and g.literal_tokens(seq[-1]) == {']'}:
        return 'array'
    if first.kind in ('combine', 'word'):
        fs = g.first(first) if g.reachable(first) else set()
        if fs and fs <= set(G.NUMS + '.'):
            return 'number'
        if fs and fs <= set(G.ALPHAS + '_'):
            if len(seq) == 1:
                return 'variable'
            if len(seq) >= 3 and g.literal_tokens(seq[1]) == {'('} and g.literal_tokens(seq[-1]) == {')'}:
                return 'function'
    return None


def d1_chain(ctx, idx, st):
    r = ctx.rule('D1.CHAIN', 'precedence chain of the extracted grammar equals sum < product < parallel < unary minus < '
                             'power < atom', floor=24)
    with r:
        g = G.extract(idx)
        st['g'] = g
        root = g.root
        fwd = None
        if root.kind == 'forward':
            fwd = root
        elif root.kind == 'and':
            fwds = [k for k in root.kids if k.kind == 'forward']
            if len(fwds) == 1 and root.kids[0] is fwds[0]:
                fwd = fwds[0]
        if fwd is None:
            raise AnalysisError('returned grammar is not `expression [+ stringEnd]` with expression a Forward: %s'
                                % root.describe(2))
        st['forward'] = fwd
        levels, atom = g.chain(fwd)
        # the chain must end in the real atom: otherwise a level of unrecognised shape was mistaken for it, and every
        # operator below would be reported as "missing" although only the shape is not understood
        atom_probe = g.strip(atom)
        if atom_probe.kind != 'first' or sum(1 for a in atom_probe.kids if classify_atom(g, a)) < 2:
            raise AnalysisError('precedence level `%s` has a shape that is not recognised as `[op] X (op X)*` nor as the atom: %s'
                                % (atom.label or '?', atom_probe.describe(2)))
        # operator tokens that are not finite literal sets (e.g. Word('|')): compare their language with the table
        for lv in levels:
            if not lv.wide_ops:
                continue
            langs = [g.token_strings(w, 3) - {''} for w in lv.wide_ops]
            cands = [(kind, inf) for kind, pre, inf, optsign in A3 if inf and lv.infix_ops <= inf
                     and all(any(tok in lang for lang in langs) for tok in inf - lv.infix_ops)
                     and all(lang & inf for lang in langs)]
            if len(cands) != 1:
                raise AnalysisError('operator token expression `%s` of level `%s` not recognised'
                                    % (lv.wide_ops[0].describe(2), lv.label))
            kind, inf = cands[0]
            for w, lang in zip(lv.wide_ops, langs):
                extra = sorted(lang - inf, key=lambda x: (len(x), x))
                if extra:
                    ex = ', '.join('`1%s2`' % x for x in extra[:3])
                    r.violation('level %s: operator token' % kind, 'the operator token of the %s level is `%s`, which matches %s '
                                'besides %s: strings such as %s are given a value (that of %s) instead of being rejected with a '
                                'parse error' % (kind, w.describe(2), ', '.join(repr(x) for x in extra[:4]) + (' ...' if len(extra) > 4 else ''),
                                                 opset(inf), ex, ' / '.join('`1%s2`' % x for x in sorted(inf))),
                                gloc(g, w), expected='exactly %s' % opset(inf), found=w.describe(2))
                else:
                    r.ok('level %s: operator token' % kind, '`%s` matches exactly %s' % (w.describe(2), opset(inf)), gloc(g, w))
            lv.infix_ops = set(inf)
            lv.wide_handled = True
        st['levels'], st['atom'] = levels, atom
        ctx.extra['grammar'] = {
            'terms': len(g.nodes()), 'levels': [lv.describe() for lv in levels],
            'FIRST(atom)': G.show_chars(g.first(atom)), 'FOLLOW(atom)': G.show_chars(g.follow(atom)),
            'named_groups': sorted({n for n, t, how in g.groups() if n}),
        }
        # ---- operator ranks found vs expected
        found_rank, exp_rank = {}, {}
        for i, (kind, pre, inf, optsign) in enumerate(A3):
            for o in inf:
                exp_rank[('infix', o)] = i
            for o in pre:
                exp_rank[('prefix', o)] = i
            for o in optsign:
                exp_rank[('exponent sign', o)] = i
        for i, lv in enumerate(levels):
            for o in lv.infix_ops:
                found_rank.setdefault(('infix', o), i)
            for o in lv.prefix_ops:
                found_rank.setdefault(('prefix', o), i)
            for o in lv.infix_optional:
                found_rank.setdefault(('exponent sign' if lv.infix_ops == {'^'} else 'optional (omissible) infix', o), i)
        exact = len(levels) == len(A3) and all(lv.signature() == (frozenset(p), frozenset(i_), frozenset(o))
                                               for lv, (k, p, i_, o) in zip(levels, A3))
        kinds = {}
        if exact:
            for lv, (kind, pre, inf, optsign) in zip(levels, A3):
                kinds[id(lv)] = kind
                r.ok('level %s' % kind, 'depth %d: %s; operand is the next tighter level' % (levels.index(lv), lv.describe()),
                     gloc(g, lv.term))
        else:
            reported = False
            # pairwise order of operators
            keys = sorted(set(found_rank) & set(exp_rank), key=lambda k: (exp_rank[k], k))
            for a in keys:
                for b in keys:
                    if exp_rank[a] < exp_rank[b] and not found_rank[a] < found_rank[b]:
                        rel = 'on the same level as' if found_rank[a] == found_rank[b] else 'tighter than'
                        lv = levels[found_rank[a]]
                        r.violation('precedence of %s %s vs %s %s' % (a[0], opname(a[1]), b[0], opname(b[1])),
                                    "%s '%s' must bind looser than %s '%s' but the grammar parses it %s '%s' "
                                    "(level `%s`: %s): expressions mixing the two are grouped differently from the "
                                    "documented precedence%s" % (a[0], opname(a[1]), b[0], opname(b[1]), rel, opname(b[1]),
                                                                 lv.label, lv.describe(),
                                                                 (' -- e.g. `-a %s b` is read as -(a %s b) instead of (-a) %s b' % (
                                                                     a[1], a[1], a[1])) if (a[0], b[0]) == ('infix', 'prefix') else ''),
                                    gloc(g, lv.term),
                                    expected='%s below %s' % (opname(a[1]), opname(b[1])), found=rel)
                        reported = True
            for k in sorted(set(exp_rank) - set(found_rank)):
                r.violation('operator %s %s' % (k[0], opname(k[1])), "the %s operator '%s' of the documented grammar is no "
                            "longer accepted at any precedence level" % (k[0], opname(k[1])), gloc(g, fwd))
                reported = True
            for k in sorted(set(found_rank) - set(exp_rank)):
                lv = levels[found_rank[k]]
                r.violation('operator %s %s' % (k[0], opname(k[1])), "the grammar accepts '%s' as %s operator at level `%s`, "
                            "which the documented operator table does not contain (or not in this position)"
                            % (opname(k[1]), k[0], lv.label), gloc(g, lv.term))
                reported = True
            if len(levels) == len(A3) and not reported:
                for lv, (kind, pre, inf, optsign) in zip(levels, A3):
                    if lv.signature() == (frozenset(pre), frozenset(inf), frozenset(optsign)):
                        r.ok('level %s' % kind, lv.describe(), gloc(g, lv.term))
                        continue
                    want = G.Level(lv.outer, lv.term, lv.operand)
                    want.prefix_ops, want.infix_ops, want.infix_optional = pre, inf, optsign
                    r.violation('level %s' % kind, 'the %s level accepts `%s`; the documented grammar has `%s` there: '
                                'strings with the additional/missing operator forms are accepted with another meaning or '
                                'rejected' % (kind, lv.describe(), want.describe()), gloc(g, lv.term),
                                expected=want.describe(), found=lv.describe())
                    reported = True
            if not reported:
                r.violation('precedence chain', 'the chain has %d levels %s, expected the 5 levels of the operator table'
                            % (len(levels), [lv.describe() for lv in levels]), gloc(g, fwd))
            for i, lv in enumerate(levels):
                k = kind_by_signature(lv)
                if k is None and len(levels) == len(A3):
                    k = A3[i][0]
                if k:
                    kinds[id(lv)] = k
        st['kinds'] = kinds
        # ---- the operand after the operator is the same non-terminal as the first operand
        for lv in levels:
            if lv.star is None:
                continue
            r.check(lv.body_operand is lv.operand, 'level %s: operands' % (kinds.get(id(lv)) or lv.label),
                    'left and right operands are the same non-terminal',
                    'the operand after the operator (%s) is not the non-terminal used before it (%s): the two sides of '
                    'the operator are parsed at different precedence' % (lv.body_operand.label or lv.body_operand.describe(1),
                                                                          lv.operand.label or lv.operand.describe(1)),
                    gloc(g, lv.term))
        # ---- tokens that reach the evaluators: the em-dash must have become '-'
        for lv in levels:
            emitted = set()
            for t in lv.op_terms + lv.prefix_terms:
                emitted |= g.emitted(t)
            bad = emitted - {'+', '-', '*', '/'}
            r.check(not bad, 'level %s: operator tokens' % (kinds.get(id(lv)) or lv.label),
                    'tokens handed to the evaluator: %s' % opset(emitted),
                    "the operator token %s reaches the evaluator unchanged (no parse action turning it into '-'): the "
                    "evaluator treats it as an unknown symbol / operand" % opset(bad), gloc(g, lv.term))
        # ---- the em-dash is admitted wherever '-' is
        emdash_parity(r, g, 'the value of a formula depends on which dash was typed -- `2e\u20143` is read as the number 2 with suffix '
                            '`e`, minus 3, instead of 2e-3')
        # ---- the recursion is closed at the loosest level
        r.ok('expression', 'Forward bound to the loosest level `%s`' % (levels[0].label if levels else atom.label), gloc(g, fwd))
        # ---- atom alternatives
        atom_t = g.strip(atom)
        if atom_t.kind != 'first':
            raise AnalysisError('atom is not an ordered choice: %s' % atom_t.describe(2))
        found = []
        for alt in atom_t.kids:
            k = classify_atom(g, alt)
            if k is None:
                r.undecided('atom alternative', 'form of `%s` not recognised' % alt.describe(2), gloc(g, alt))
            found.append((k, alt))
        st['atoms'] = {k: a for k, a in found if k}
        for k in ATOM_KINDS:
            n = sum(1 for kk, _ in found if kk == k)
            r.check(n == 1, 'atom alternative %s' % k, 'present', 'the atom has %d alternatives of the form %s (expected '
                    'exactly one): %s' % (n, k, 'such operands are no longer part of the grammar' if n == 0 else
                                          'the second one can never match'), gloc(g, atom_t))
        order = [k for k, _ in found]
        if 'function' in order and 'variable' in order:
            r.check(order.index('function') < order.index('variable'), 'atom: function before variable',
                    'ordered choice tries function first', 'the ordered choice tries `variable` before `function`: a function '
                    'call f(x) is consumed as variable f and the rest is rejected', gloc(g, atom_t))
        for k in ('function', 'parentheses', 'array'):
            alt = st['atoms'].get(k)
            if alt is None:
                continue
            inner = [t for t in g.nodes(alt) if t.kind == 'forward']
            operands = bracket_operands(g, alt)
            good = bool(operands) and all(o is fwd for o in operands)
            r.check(good, 'atom alternative %s: recursion' % k, 'content is the full expression',
                    'the content of %s is `%s`, not the top-level expression: lower-precedence operators inside the '
                    'brackets are rejected' % (k, ', '.join(o.label or o.describe(1) for o in operands) or '?'), gloc(g, alt))


def emdash_parity(r, g, consequence):
    """Every token position of the grammar that admits '-' (binary minus, unary minus, sign after '^', sign of a numeral's
    exponent) admits the em-dash as well, normalised to '-'.  Positions inside a name (tensor indices `_{-1}`) are exempt:
    names are looked up literally."""
    n = 0
    for top, lits, comb in g.minus_sites():
        if comb is not None and g.first(comb) <= set(G.ALPHAS + '_'):
            continue
        n += 1
        where_txt = ('the sign inside the token `%s`' % (comb.name or comb.describe(1))) if comb is not None else \
            'the operator/sign choice `%s`' % top.describe(2)
        if comb is not None and g.first(comb) <= set(G.NUMS + '.'):
            where_txt = 'the exponent sign of a numeral (inside `%s`)' % (comb.name or comb.describe(1))
        construct = 'em-dash: %s' % ('numeral exponent sign' if comb is not None else 'sign choice %s' % opset(lits))
        if EMDASH not in lits:
            r.violation(construct, '%s accepts %s but not the em-dash, although every other minus position of the grammar does: %s'
                        % (where_txt, opset(lits), consequence), gloc(g, top), expected=opset(set(lits) | {EMDASH}), found=opset(lits))
            continue
        try:
            out = g.emitted(top)
        except AnalysisError:
            out = None
        if out is not None and EMDASH in out:
            r.violation(construct, '%s accepts the em-dash but hands it on unchanged (no parse action turning it into \'-\')' % where_txt,
                        gloc(g, top))
        else:
            r.ok(construct, '%s admits the em-dash, normalised to -' % where_txt, gloc(g, top))
    return n


def kind_by_signature(lv):
    for kind, pre, inf, optsign in A3:
        if lv.infix_ops and lv.infix_ops == inf:
            return kind
        if not lv.infix_ops and not inf and lv.prefix_ops and lv.prefix_ops <= pre:
            return kind
    return None


def bracket_operands(g, alt):
    """Non-literal elements between the brackets of a bracketed atom (after the name, for functions)."""
    body = alt.kids[0]
    seq = list(body.kids) if body.kind == 'and' and not body.origin else [body]
    out = []

    def collect(t):
        if t.kind in ('suppress', 'lit'):
            return
        if t.kind == 'group' or (t.kind == 'and' and t.origin == 'delimitedList'):
            inner = t.kids[0] if t.kind == 'group' else t
            if inner.kind == 'and' and inner.origin == 'delimitedList':
                out.append(inner.kids[0])
                return
            collect(inner)
            return
        if t.kind == 'and':
            for k in t.kids:
                collect(k)
            return
        if t.kind in ('opt', 'star', 'plus'):
            collect(t.kids[0])
            return
        out.append(t)
    started = False
    for t in seq:
        if g.literal_tokens(t) in ({'('}, {'['}):
            started = True
            continue
        if started:
            collect(t)
    return out


# ----------------------------------------------------------------------------- D2
def actions_dict(idx):
    """The dict literal handed to eval_node as the dispatch table, inside MathExpression.eval."""
    fi = idx.func(ME + '.eval')
    call = lib.one_call(fi, 'eval_node')
    arg = lib.get_kw(call, 'actions', 1)
    if isinstance(arg, ast.Name):
        vals = lib.assigned_value(fi.node, arg.id)
        if len(vals) != 1:
            raise AnalysisError('dispatch table %s assigned %d times in MathExpression.eval' % (arg.id, len(vals)))
        arg = vals[0]
    if not isinstance(arg, ast.Dict) or any(not (isinstance(k, ast.Constant) and isinstance(k.value, str)) for k in arg.keys):
        return fi, call, None      # not a literal: the keys are obtained by evaluating the table symbolically (Harness.table_keys)
    return fi, call, arg


def d2_table(ctx, idx, st):
    r = ctx.rule('D2.TABLE', 'every named group the grammar produces has its handler in the actions table; grouping and '
                             'dispatch are by group name', floor=17)
    with r:
        g = st.get('g') or G.extract(idx)
        fi, call, table = actions_dict(idx)
        keys = [k.value for k in table.keys] if table is not None else Harness(idx).table_keys()
        if table is None:
            table = call
        st['action_keys'] = keys
        dup = {k for k in keys if keys.count(k) > 1}
        for k in sorted(dup):
            r.violation("actions['%s']" % k, 'the key occurs twice in the dispatch table: the earlier handler is dead',
                        lib.loc(fi, table))
        produced = {}
        for name, term, how in g.groups():
            if name is None:
                r.undecided('unnamed Group', 'a Group without results name reaches eval_node: %s' % term.describe(2), gloc(g, term))
                continue
            produced.setdefault(name, []).append((term, how))
        st['produced'] = produced
        for name in sorted(produced):
            term, how = produced[name][0]
            r.check(name in keys, "group '%s'" % name, 'produced by %s, handled by actions[%r]' % (how, name),
                    "the grammar produces groups named '%s' (%s at `%s`) but the actions table of MathExpression.eval has no "
                    "such key (keys: %s): eval_node raises \"Unknown branch name\" for every expression containing one"
                    % (name, how, term.label or term.describe(1), ', '.join(sorted(keys))), gloc(g, term),
                    expected='a key %r' % name, found=', '.join(sorted(keys)))
        for k in keys:
            if k not in produced:
                r.note("handler actions['%s'] is not produced by any grammar construct" % k)
        # every precedence level wraps its multi-token results
        for lv in st.get('levels', []):
            kind = st.get('kinds', {}).get(id(lv)) or lv.label
            if lv.group is None:
                r.violation('level %s: grouping' % kind, 'the level has no group_if_multiple action: its tokens are spliced '
                            'into the enclosing level and evaluated with the wrong operator', gloc(g, lv.term))
                continue
            thr, ok, act = G.group_action_threshold(lv.group.extra)
            r.check(thr == 2 and ok, 'level %s: grouping' % kind, "results with >= 2 tokens are wrapped as '%s'" % lv.group.value,
                    ('group_if_multiple wraps results with >= %d tokens (expected >= 2): %s' % (
                        thr, 'single operands are wrapped and sent through the evaluator' if thr < 2 else
                        'two-token results such as `a^b` or `-a` are spliced into the enclosing level ungrouped'))
                    if thr != 2 else 'group_if_multiple does not wrap [tokens] under the name it was given',
                    lib.loc(lv.group.extra, act), expected='len(tokens) > 1', found='len(tokens) >= %d' % thr)
        # eval_node dispatch
        en = idx.func(ME + '.eval_node')
        sub = [n for n in walk_own(en.node) if isinstance(n, ast.Subscript) and isinstance(n.value, ast.Name)
               and n.value.id == en.params[1] and isinstance(n.ctx, ast.Load)]
        if not sub:
            raise AnalysisError('eval_node: no look-up in the actions parameter')
        for s_ in sub:
            key = lib.inline_locals(s_.slice, en.node)
            res = nf.classify(['%s.getName()' % en.params[0], '%s.get_name()' % en.params[0]], key)
            r.verdict('eval_node: dispatch key', res, lib.loc(en, s_), 'actions[node.getName()]', expected='node.getName()')


def d2_structural(ctx, idx, st):
    r = ctx.rule('D2.HANDLER', 'the handlers of the bracket groups return their content: parentheses -> the child, '
                               'arguments -> the list, array -> MathArray(list)', floor=3)
    with r:
        g = st.get('g') or G.extract(idx)
        h = Harness(idx)
        atoms = st.get('atoms', {})
        cases = []
        if 'parentheses' in atoms:
            cases.append(('parentheses', atoms['parentheses'], atoms['parentheses'].name, 1))
        if 'array' in atoms:
            cases.append(('array', atoms['array'], atoms['array'].name, 2))
        if 'function' in atoms:
            subs = [v for s in g.shapes(atoms['function'], reps=1) for k, v in s if k == 'sub']
            if subs:
                cases.append(('arguments', subs[0], subs[0].name, 2))
        where = lib.loc(idx.func(ME + '.eval'))
        for kind, term, gname, n in cases:
            holder = {}

            def build(sp, n=n, gname=gname, holder=holder):
                holder['leaves'] = [sp.leaf(LEAF_NAMES[i]) for i in range(n)]
                return S.PNode(gname, holder['leaves'])
            sp, paths = h.run(build)
            leaves = holder['leaves']
            if kind == 'parentheses':
                expect = leaves[0]
            elif kind == 'arguments':
                expect = list(leaves)
            else:
                expect = S.ArrayVal('MathArray', list(leaves))
            rets = [p for p in paths if p.kind == 'ret']
            unresolved = [p for p in rets if lost(p.value)]
            if unresolved:
                r.undecided("group '%s': handler" % gname, 'handler expression not resolved by the symbolic evaluator (value `%s`)'
                            % S.show(unresolved[0].value), where)
                continue
            bad = [p for p in rets if not sp.equal(p.value, expect)]
            raises = {p.value.cls for p in paths if p.kind == 'raise'} - ({'UnableToParse'} if kind == 'array' else set())
            r.check(rets and not bad and not raises, "group '%s': handler" % gname, 'returns %s' % S.show(expect),
                    'for the children %s the handler of %s %s; the property requires %s' % (
                        S.show(leaves), kind, ('returns %s' % S.show(bad[0].value)) if bad else
                        ('raises %s' % sorted(raises) if raises else 'never returns'), S.show(expect)), where,
                    expected=S.show(expect), found=S.show(bad[0].value) if bad else None)


def d2_cast(ctx, idx, st):
    r = ctx.rule('D2.CAST', 'what eval_node returns for an interior node is the action result after cast_np_numeric_as_builtin',
                 floor=1)
    with r:
        en = idx.func(ME + '.eval_node')
        A = en.params[1]
        is_action_call = lambda e: isinstance(e, ast.Call) and isinstance(e.func, ast.Subscript) and \
            isinstance(e.func.value, ast.Name) and e.func.value.id == A
        paths = nf.decision_paths(en.node.body)
        seen = 0
        for p in paths:
            if p.leaf.kind != 'ret':
                continue
            v = p.leaf.expr
            calls = [n for n in ast.walk(v) if is_action_call(n)]
            if not calls:
                continue            # leaf / nan exits
            seen += 1
            where = lib.loc(en, p.leaf.stmt)
            construct = 'eval_node: returned value'
            if is_action_call(v):
                exit_guard = ' and '.join(unparse(g_) for g_ in p.guards[-2:]) or 'always'
                r.violation(construct, 'on the exit of eval_node taken when `%s`, the raw output of the action (`%s`) is returned instead '
                            'of the value that went through cast_np_numeric_as_builtin: numpy scalars (np.float64 from sin, cos, sampled '
                            'variables ...) escape from these nodes, so the enclosing operators see numpy numbers -- `sin(x)^0.5` at a '
                            'negative base then takes numpy\'s real power (an error through the seterr handler) instead of the '
                            'complex-capable robust_pow on builtins, and number + array broadcasts'
                            % (exit_guard, short(p.leaf.stmt.value)), where, expected='cast_np_numeric_as_builtin(<action result>, ...)',
                            found=short(p.leaf.stmt.value))
            elif isinstance(v, ast.Call) and nf.callee_name(v) == 'cast_np_numeric_as_builtin' and v.args and \
                    any(is_action_call(n) for n in ast.walk(v.args[0])):
                r.ok(construct, 'cast_np_numeric_as_builtin(<action result>)', where)
            elif isinstance(v, ast.Call) and _cast_in_helper(idx, en, v, is_action_call) is not None:
                verdict, text = _cast_in_helper(idx, en, v, is_action_call)
                if verdict == 'ok':
                    r.ok(construct, text, where)
                elif verdict == 'raw':
                    r.violation(construct, text, where, expected='cast_np_numeric_as_builtin(<action result>, ...)')
                else:
                    r.undecided(construct, text, where)
            else:
                r.undecided(construct, 'returned expression `%s` not recognised' % short(v), where)
        if not seen:
            raise AnalysisError('eval_node: no return that carries the result of an action')


def _cast_in_helper(idx, en, v, is_action_call):
    """eval_node returns helper(<action result>, ...): look at what the helper returns for that parameter.
    ('ok' | 'raw' | 'unknown', text) or None when v is not such a call."""
    from ..effects import map_args
    targets, how = idx.resolve_call(en, v)
    fis = [t for t in targets if not isinstance(t, tuple)]
    if len(fis) != 1:
        return None
    h = fis[0]
    pname = None
    for p_, a in map_args(h, v).items():
        if a is not None and is_action_call(a):
            pname = p_
    if pname is None:
        return None
    raw = cast = other = 0
    for p in nf.decision_paths(h.node.body):
        if p.leaf.kind != 'ret':
            continue
        x = p.leaf.expr
        if nf.match("float('nan')", x) is not None or nf.match('_X.nan', x) is not None:
            continue
        if isinstance(x, ast.Name) and x.id == pname:
            raw += 1
        elif isinstance(x, ast.Call) and nf.callee_name(x) == 'cast_np_numeric_as_builtin' and x.args and any(
                isinstance(n, ast.Name) and n.id == pname for n in ast.walk(x.args[0])):
            cast += 1
        else:
            other += 1
    if raw:
        return 'raw', ('the helper %s hands the action result back as it is (no cast_np_numeric_as_builtin): numpy scalars '
                       'escape from interior nodes' % h.name)
    if cast and not other:
        return 'ok', 'through %s: cast_np_numeric_as_builtin(<action result>)' % h.name
    return 'unknown', 'returns of helper %s not recognised' % h.name


# ----------------------------------------------------------------------------- D3
LEAF_NAMES = 'abcdefgh'


class Harness(object):
    """Runs eval_node (symbolically) on one group node with the real dispatch table of MathExpression.eval."""

    def __init__(self, idx):
        self.idx = idx
        self.eval_fi = idx.func(ME + '.eval')
        self.node_fi = idx.func(ME + '.eval_node')
        for p in ('variables', 'functions', 'suffixes'):
            if p not in self.eval_fi.params:
                raise AnalysisError('MathExpression.eval has no parameter %s' % p)
        _, call, _ = actions_dict(idx)
        self.call = call

    def run(self, build):
        """build(space) -> PNode ; returns (space, [Path])."""
        sp = S.Space()
        it = S.Interp(self.idx, sp)
        fi = self.eval_fi

        def thunk():
            env = S.Env()
            env.vars[fi.params[0]] = self._self_object(it)
            env.vars['variables'] = S.DictSym('variables', 'num')
            env.vars['functions'] = S.DictSym('functions', 'func')
            env.vars['suffixes'] = S.DictSym('suffixes', 'num')
            for p in fi.params[1:]:
                env.vars.setdefault(p, False)
            for s in fi.node.body:
                if isinstance(s, (ast.Assign, ast.FunctionDef)):
                    it.exec_stmt(s, env, fi.module, fi, 0)
            arg = lib.get_kw(self.call, 'actions', 1)
            table = it.eval(arg, env, fi.module, fi, 0)
            return it.call_function(self.node_fi, [build(sp), table, False])
        self._thunk_env = None
        paths = it.explore(thunk)
        self.state_reads, self.state_writes = list(it.state_reads), list(it.state_writes)
        # helpers the normaliser could not inline but whose bodies were interpreted here are thereby reviewed: a difference
        # found *through* them is definite (the engine otherwise downgrades violations in files with unreviewed helpers)
        left = getattr(self.idx, 'unreviewed', None)
        if left:
            self.idx.unreviewed = [q for q in left if q not in it.followed]
        return sp, paths


def _harness_self_object(self, it):
    """self with the *stateless action tables* that __init__ builds (dict displays with constant string keys whose values are
    lambdas or methods); every other field stays instance state (reads are StateVal, writes are recorded)."""
    me = S.SelfObj(self.eval_fi.cls)
    init = self.idx.lookup(self.eval_fi.cls, '__init__')
    if init is None:
        return me
    env = S.Env()
    env.vars[init.params[0]] = me
    for p_ in init.params[1:]:
        env.vars[p_] = S.Opaque('__init__ argument %s' % p_)
    it.init_phase = True
    try:
        for s_ in init.node.body:
            if isinstance(s_, ast.Assign) and len(s_.targets) == 1 and isinstance(s_.targets[0], ast.Attribute) \
                    and isinstance(s_.targets[0].value, ast.Name) and s_.targets[0].value.id == init.params[0] \
                    and isinstance(s_.value, ast.Dict) and s_.value.keys and all(
                        isinstance(k, ast.Constant) and isinstance(k.value, str) for k in s_.value.keys) \
                    and all(isinstance(v, (ast.Lambda, ast.Attribute)) for v in s_.value.values):
                try:
                    it.exec_stmt(s_, env, init.module, init, 0)
                except AnalysisError:
                    pass
    finally:
        it.init_phase = False
    return me


def _harness_table_keys(self):
    sp = S.Space()
    it = S.Interp(self.idx, sp)
    fi = self.eval_fi
    env = S.Env()
    env.vars[fi.params[0]] = self._self_object(it)
    for p_ in fi.params[1:]:
        env.vars[p_] = S.Opaque(p_)
    it.preset, it.trace = [], []
    for s_ in fi.node.body:
        if isinstance(s_, (ast.Assign, ast.FunctionDef)):
            it.exec_stmt(s_, env, fi.module, fi, 0)
    table = it.eval(lib.get_kw(self.call, 'actions', 1), env, fi.module, fi, 0)
    if not isinstance(table, dict) or not all(isinstance(k, str) for k in table):
        raise AnalysisError('dispatch table of MathExpression.eval could not be evaluated to a table with string keys')
    return list(table)


Harness._self_object = _harness_self_object
Harness.table_keys = _harness_table_keys


def tokens_to_values(sp, seq, g):
    vals, leaves = [], []
    for kind, v in seq:
        if kind == 'lit':
            vals.append(v)
        elif kind == 'operand':
            leaf = sp.leaf(LEAF_NAMES[len(leaves)])
            leaves.append(leaf)
            vals.append(leaf)
        elif kind == 'text':
            vals.append(S.StrTok(v.name or v.label or 'text'))
        elif kind == 'sub':
            inner = g.shapes(v, reps=2)
            inner = max(inner, key=len)
            sub_vals, sub_leaves = [], []
            for k2, v2 in inner:
                if k2 == 'operand':
                    leaf = sp.leaf(LEAF_NAMES[len(leaves)])
                    leaves.append(leaf)
                    sub_vals.append(leaf)
                elif k2 == 'lit':
                    sub_vals.append(v2)
                else:
                    raise AnalysisError('nested group shape not supported')
            vals.append(S.PNode(v.name, sub_vals))
    return vals, leaves


def render(vals):
    out = []
    for v in vals:
        if isinstance(v, str):
            out.append(repr(v))
        elif isinstance(v, S.PNode):
            out.append('%s%s' % (v.name, render(v.children)))
        else:
            out.append(S.show(v))
    return '[' + ', '.join(out) + ']'


def spec_level(kind, vals, sp, path):
    """Value mathematics assigns to the token list of one precedence level (None = no constraint)."""
    toks = list(vals)
    if kind == 'sum':
        if toks and toks[0] == '+':
            toks.pop(0)
        acc = toks.pop(0)
        while toks:
            op, x = toks.pop(0), toks.pop(0)
            acc = sp.add(acc, x) if op == '+' else sp.sub(acc, x)
        return acc
    if kind == 'product':
        acc = toks.pop(0)
        while toks:
            op, x = toks.pop(0), toks.pop(0)
            acc = sp.mul(acc, x) if op == '*' else sp.div(acc, x)
        return acc
    if kind == 'negation':
        acc = toks[-1]
        for t in toks[:-1]:
            if t == '-':
                acc = sp.neg(acc)
        return acc
    if kind == 'power':
        acc = toks.pop()
        while toks:
            t = toks.pop()
            if t == '-':
                acc = sp.neg(acc)
            else:
                acc = sp.pow(t, acc)
        return acc
    if kind == 'parallel':
        total = None
        for x in toks:
            rec = sp.div(1, x)
            total = rec if total is None else sp.add(total, rec)
        return sp.div(1, total)
    raise AnalysisError('no specification for level kind %s' % kind)


MEANING = {
    'sum': "'+' and '-' associate to the left: a - b + c = (a - b) + c",
    'product': "'*' and '/' associate to the left with the running result as numerator: a / b * c = (a / b) * c",
    'negation': "unary minus negates its operand",
    'power': "'^' associates to the right and a sign belongs to the exponent: a^b^c = a^(b^c), a^-b = a^(-b)",
    'parallel': "a || b || ... = 1/(1/a + 1/b + ...), and 0 when an operand is 0",
}


def d3_folds(ctx, idx, st):
    r = ctx.rule('D3.FOLD', 'the handler of each precedence level computes the mathematical fold of that level', floor=5)
    with r:
        g = st.get('g') or G.extract(idx)
        levels = st.get('levels')
        if levels is None:
            raise AnalysisError('precedence chain not available')
        h = Harness(idx)
        total = 0
        for lv in levels:
            kind = st['kinds'].get(id(lv))
            if kind is None or lv.group is None:
                continue
            gname = lv.group.value
            shapes = [s for s in g.shapes(lv.term, stops=[x for x in (lv.operand, lv.body_operand) if x is not None], reps=3) if len(s) >= 2]
            if not shapes:
                raise AnalysisError('level %s produces no multi-token results' % kind)
            bad = None
            checked = 0
            for seq in shapes:
                holder = {}

                def build(sp, seq=seq, holder=holder):
                    vals, leaves = tokens_to_values(sp, seq, g)
                    holder['vals'], holder['leaves'] = vals, leaves
                    return S.PNode(gname, vals)
                sp, paths = h.run(build)
                vals, leaves = holder['vals'], holder['leaves']
                try:
                    expect = spec_level(kind, vals, sp, None)
                except (IndexError, AnalysisError):
                    continue      # a token list outside the level's operator/operand alternation (reported by D1/D6)
                for p in paths:
                    checked += 1
                    msg = judge_level(kind, sp, p, expect, leaves)
                    if msg and bad is None:
                        bad = (vals, msg, expect)
                if kind == 'parallel' and bad is None:
                    if not any(any(v for _, v in p.decided('eq')) for p in paths):
                        bad = (vals, 'no path returns 0 for a zero operand: `0 || x` raises a division-by-zero error instead of '
                                     'giving 0', expect)
            total += checked
            construct = 'level %s: handler actions[%r]' % (kind, gname)
            where = lib.loc(idx.func(ME + '.eval'))
            try:
                _, _, table = actions_dict(idx)
                for k, v in (zip(table.keys, table.values) if table is not None else []):
                    if k.value == gname:
                        tgt = handler_target(idx, v)
                        if tgt is not None:
                            where = tgt.loc
                            construct += ' = %s' % tgt.name
            except AnalysisError:
                pass
            if bad is None:
                r.ok(construct, '%d token lists (<= 4 operands), %d symbolic paths agree with: %s' % (len(shapes), checked, MEANING[kind]), where)
            else:
                vals, msg, expect = bad
                r.violation(construct, 'for the token list %s the handler %s; the property requires %s (%s)'
                            % (render(vals), msg, S.show(expect), MEANING[kind]), where, expected=S.show(expect))
        ctx.extra['symbolic_paths_checked'] = ctx.extra.get('symbolic_paths_checked', 0) + total


def lost(v):
    """The symbolic value is an opaque placeholder: the handler expression was not resolved (not a finding)."""
    if isinstance(v, (list, tuple)):
        return any(lost(x) for x in v)
    return isinstance(v, S.Opaque) and not isinstance(v, (S.StateVal, S.ArrayVal)) or \
        (isinstance(v, S.ArrayVal) and lost(v.payload))


def judge_level(kind, sp, p, expect, leaves):
    if p.kind == 'raise':
        return 'raises %s' % p.value.cls
    v = p.value
    if lost(v):
        raise AnalysisError('the handler of level %s was not resolved by the symbolic evaluator (value `%s`)' % (kind, S.show(v)))
    if kind == 'parallel':
        zero = [t for t, val in p.decided('eq') if val]
        if zero:
            ok = isinstance(v, (S.Num, int)) and not isinstance(v, bool) and sp.equal(v, 0)
            return None if ok else 'returns %s when an operand is zero (expected 0)' % S.show(v)
        tested = {t[1] for t, val in p.decided('eq') if not val}
        if len(tested) < len(leaves):
            return 'computes %s without testing every operand for zero' % S.show(v) if not sp.equal(v, expect) else \
                'does not test every operand for zero before dividing'
    if not isinstance(v, (S.Num, int)) or isinstance(v, bool):
        return 'returns %s' % S.show(v)
    if sp.equal(v, expect):
        return None
    return 'computes %s' % S.show(v)


def handler_target(idx, v):
    """FuncInfo a dispatch-table value delegates to (self.eval_x or lambda ...: self.eval_x(...))."""
    e = v.body if isinstance(v, ast.Lambda) else v
    if isinstance(e, ast.Call):
        e = e.func
    if isinstance(e, ast.Attribute) and isinstance(e.value, ast.Name):
        q = ME + '.' + e.attr
        if idx.has_func(q):
            return idx.func(q)
    return None


# ----------------------------------------------------------------------------- D4
NUMBER_YES = ['0', '7', '12', '1.', '1.5', '.5', '0.25', '1e3', '1E3', '1e-3', '1E+3', '1.5e10', '.5e-2', '2.e2']
NUMBER_NO = ['.', 'e3', '-1', '+1', '1e', '1e-', '1..2', 'x', '']


def d4_literals(ctx, idx, st):
    r = ctx.rule('D4.LITERAL', 'number literals: decimal/scientific text as one token, float(text) * suffixes[suffix]; suffix tables', floor=9)
    with r:
        g = st.get('g') or G.extract(idx)
        alt = st.get('atoms', {}).get('number')
        if alt is None:
            raise AnalysisError('number alternative of atom not identified')
        shapes = g.shapes(alt, reps=2)
        texts = [[v for k, v in s] for s in shapes if all(k == 'text' for k, v in s)]
        if len(texts) != len(shapes) or sorted(len(s) for s in shapes) != [1, 2]:
            r.violation('number: token shape', 'a number no longer yields [text] or [text, suffix] but %s: eval_number '
                        'reads parse_result[0] as the whole numeral' % [[k for k, v in s] for s in shapes], gloc(g, alt),
                        expected='[num] | [num, suffix]')
            return
        num = [s for s in shapes if len(s) == 1][0][0][1]
        suf = [s for s in shapes if len(s) == 2][0][1][1]
        st['num_term'], st['suffix_term'] = num, suf
        r.check(num.kind == 'combine', 'number: numeral token', 'Combine: contiguous, joined into one string',
                'the numeral is not wrapped in Combine: `1 .5`/`1. 5` are accepted across white space and its pieces arrive '
                'as separate tokens', gloc(g, num))
        missing = [s for s in NUMBER_YES if not g.accepts(num, s)]
        extra = [s for s in NUMBER_NO if g.accepts(num, s)]
        r.check(not missing and not extra, 'number: numeral language',
                '%d decimal/scientific probes accepted, %d non-numerals refused' % (len(NUMBER_YES), len(NUMBER_NO)),
                'the numeral sub-grammar %s' % '; '.join(x for x in (
                    'no longer matches %s as one numeral' % ', '.join(repr(s) for s in missing) if missing else '',
                    'matches %s, which float() cannot read or which is not a numeral' % ', '.join(repr(s) for s in extra) if extra else '') if x),
                gloc(g, num), expected='digits[.digits][E[+-]digits] | .digits[E[+-]digits]')
        sfirst = g.first(suf)
        r.check(suf.kind == 'word' and set(suf.init) == set(G.ALPHAS + '%') and set(suf.body) == set(suf.init),
                'number: suffix token', 'Word(letters + %)', 'the suffix token is %s: %s' % (
                    suf.describe(1), 'the % suffix is no longer recognised' if '%' not in sfirst else
                    'suffix characters changed'), gloc(g, suf), expected="Word(alphas + '%')")
        # evaluation: float(text) * suffixes[suffix]
        h = Harness(idx)
        gname = alt.name
        for seq in shapes:
            holder = {}

            def build(sp, seq=seq, holder=holder):
                vals, _ = tokens_to_values(sp, seq, g)
                holder['vals'] = vals
                return S.PNode(gname, vals)
            sp, paths = h.run(build)
            vals = holder['vals']
            expect = sp.atom(('float', vals[0].key), 'float(%s)' % vals[0].text)
            if len(vals) == 2:
                expect = sp.mul(expect, sp.lookup('suffixes', vals[1]))
            bad = [p for p in paths if p.kind != 'ret' or not isinstance(p.value, S.Num) or not sp.equal(p.value, expect)]
            construct = 'number %s: value' % ('with suffix' if len(vals) == 2 else 'without suffix')
            unresolved = [p for p in paths if p.kind == 'ret' and lost(p.value)]
            if unresolved:
                r.undecided(construct, 'handler expression not resolved by the symbolic evaluator (value `%s`)' % S.show(unresolved[0].value),
                            idx.func(ME + '.eval').loc)
                continue
            stale = [p for p in paths if p.kind == 'ret' and isinstance(p.value, S.StateVal)]
            if stale:
                tgt0 = idx.func(ME + '.eval')
                r.violation(construct, 'for the tokens %s the handler returns `%s`, a value read back from the state of the expression '
                            'object%s instead of float(text)*suffixes[suffix] of the current call: the result is memoised across calls '
                            'with different suffix tables (the expression is cached process-wide), so a literal such as `2k` keeps the '
                            'multiplier of the first evaluation' % (render(vals), S.show(stale[0].value),
                                                                    (' (written: %s)' % ', '.join(sorted(set(h.state_writes)))) if h.state_writes else ''),
                            tgt0.loc, expected=S.show(expect), found=S.show(stale[0].value))
                continue
            tgt = idx.func(ME + '.eval_number') if idx.has_func(ME + '.eval_number') else idx.func(ME + '.eval')
            if case_folded(sp):
                continue    # reported by D7
            r.check(not bad, construct, S.show(expect),
                    'for the tokens %s the handler %s; the property requires %s (a suffix is a multiplier)' % (
                        render(vals), ('computes %s' % S.show(bad[0].value)) if bad and bad[0].kind == 'ret' else
                        ('raises %s' % bad[0].value.cls if bad else ''), S.show(expect)), tgt.loc, expected=S.show(expect),
                    found=S.show(bad[0].value) if bad else None)
        # tables
        m = idx.module('mitxgraders.helpers.calc.mathfuncs')
        tables = {}
        for name, want in (('DEFAULT_SUFFIXES', A3_DEFAULT), ('METRIC_SUFFIXES', A3_SUFFIXES)):
            vals = m.assigns.get(name, [])
            if not vals:
                raise AnalysisError('anchor vanished: mathfuncs.%s' % name)
            try:
                got = CF.fold(m, name)       # literal display or a closed constant computation (loop/comprehension over literals)
            except AnalysisError as e:
                r.undecided('mathfuncs.%s' % name, 'the table is not a literal and could not be constant-folded: %s' % e, lib.mloc(m, vals[0]))
                continue
            if not isinstance(got, dict) or not all(isinstance(k, str) and isinstance(v, (int, float)) and not isinstance(v, bool)
                                                    for k, v in got.items()):
                r.undecided('mathfuncs.%s' % name, 'folded value is not a table of numeric multipliers: %r' % (got,), lib.mloc(m, vals[0]))
                continue
            tables[name] = got
            diffs = table_diff(want, got)
            r.check(not diffs, 'mathfuncs.%s' % name, 'equals the fixed table %s' % sorted(want),
                    'suffix table differs from the documented multipliers: %s' % '; '.join(diffs), lib.mloc(m, vals[0]),
                    expected=str(want), found=str(got))
        # code <-> docs
        path = os.path.join(idx.root, DOCS)
        if not os.path.exists(path):
            r.undecided('docs: suffix list', '%s not found' % DOCS)
        else:
            with open(path, encoding='utf-8') as f:
                text = f.read()
            doc = {}
            for mm in re.finditer(r'^\* `([A-Za-z%])`: ([0-9.eE+-]+)\s*$', text, re.M):
                doc[mm.group(1)] = float(mm.group(2))
            if len(doc) < 4:
                r.undecided('docs: suffix list', 'suffix bullet list not found in %s' % DOCS)
            else:
                got = tables.get('METRIC_SUFFIXES')
                diffs = table_diff(doc, got) if got is not None else []
                if got is None:
                    r.undecided('METRIC_SUFFIXES vs %s' % DOCS, 'code table not available', DOCS)
                else:
                    r.check(not diffs, 'METRIC_SUFFIXES vs %s' % DOCS, '%d suffixes agree' % len(doc),
                            'code and documentation disagree: %s' % '; '.join(diffs), DOCS)
        # callers that enable metric suffixes merge exactly that table
        cs = idx.func('mitxgraders.sampling.construct_suffixes') if idx.has_func('mitxgraders.sampling.construct_suffixes') else None
        if cs is not None:
            upd = [c for c in lib.calls_named(cs.node, 'update') if c.args]
            good = any(isinstance(c.args[0], ast.Name) and c.args[0].id == 'METRIC_SUFFIXES' for c in upd)
            r.check(good, 'construct_suffixes', 'merges METRIC_SUFFIXES', 'metric=True no longer merges METRIC_SUFFIXES', cs.loc)


def table_diff(want, got):
    out = []
    for k in sorted(set(want) | set(got)):
        if k not in got:
            out.append('%r missing' % k)
        elif k not in want:
            out.append('%r = %r is not a documented suffix' % (k, got[k]))
        elif want[k] != got[k]:
            out.append('%r is %r, expected %r' % (k, got[k], want[k]))
    return out


# ----------------------------------------------------------------------------- D5
def parse_call_site(idx, fi):
    """(call node in MathParser.parse that performs the parse, expression of parse() that reaches raw_parse as its argument).
    The raw_parse call may sit in a helper method: then the helper call is the site and the argument is followed through
    the helper's parameter."""
    direct = lib.calls_named(fi.node, 'raw_parse')
    if len(direct) == 1:
        c = direct[0]
        if len(c.args) != 1 or c.keywords:
            raise AnalysisError('raw_parse call shape')
        return c, c.args[0]
    if direct:
        raise AnalysisError('expected exactly one call of raw_parse in %s, found %d' % (fi.qualname, len(direct)))
    from ..effects import map_args
    sites = []
    for c in walk_own(fi.node):
        if not (isinstance(c, ast.Call) and isinstance(c.func, ast.Attribute) and isinstance(c.func.value, ast.Name)
                and c.func.value.id == fi.params[0]):
            continue
        tgt = idx.lookup(fi.cls, c.func.attr) if fi.cls is not None else None
        if tgt is None:
            continue
        inner = lib.calls_named(tgt.node, 'raw_parse')
        if len(inner) != 1 or len(inner[0].args) != 1 or inner[0].keywords:
            continue
        a = lib.inline_locals(inner[0].args[0], tgt.node)
        if isinstance(a, ast.Name) and a.id in tgt.params:
            arg = map_args(tgt, c).get(a.id)
            if arg is not None:
                sites.append((c, arg))
    if len(sites) != 1:
        raise AnalysisError('expected exactly one call of raw_parse in %s (directly or through one helper), found %d' % (fi.qualname, len(sites)))
    return sites[0]


def parse_key_discipline(r, idx):
    """MathParser.parse: (1) ROLE -- the membership test, the fetch, the store key and the argument of raw_parse are all
    the same value (independent of which normalisation is used); (2) that value is `expression.replace(' ', '')`.

    Shared with C10-D4 (the same obligation seen from the cache's side).
    """
    fi = idx.func(MP + '.parse')
    if len(fi.params) != 2:
        raise AnalysisError('MathParser.parse: unexpected signature')
    me, E = fi.params
    want = "%s.replace(' ', '')" % E
    call, parsed_arg = parse_call_site(idx, fi)
    is_cache = lambda e: nf.match('%s.cache' % me, e) is not None
    uses = [('string handed to raw_parse', parsed_arg, call)]
    subs = [n for n in walk_own(fi.node) if isinstance(n, ast.Subscript) and is_cache(n.value)]
    no_store = not any(isinstance(s.ctx, ast.Store) for s in subs) and not lib.calls_named(fi.node, ('setdefault', 'update'))
    for s_ in subs:
        uses.append(('cache key (%s)' % ('store' if isinstance(s_.ctx, ast.Store) else 'fetch'), s_.slice, s_))
    for n in walk_own(fi.node):
        if isinstance(n, ast.Compare) and len(n.ops) == 1 and isinstance(n.ops[0], (ast.In, ast.NotIn)) and is_cache(n.comparators[0]):
            uses.append(('cache key (membership test)', n.left, n))
    for c in lib.calls_named(fi.node, ('get', 'setdefault', 'pop')):
        if isinstance(c.func, ast.Attribute) and is_cache(c.func.value) and c.args:
            uses.append(('cache key (%s)' % c.func.attr, c.args[0], c))
    if len(uses) < (2 if no_store else 3):
        raise AnalysisError('MathParser.parse: expected a cache probe, a cache store and a raw_parse call')
    if no_store:
        # nothing is ever cached: every call parses afresh, the probe can never hit -- behaviour-neutral (only slower)
        r.ok('MathParser.parse: cache key (store)', 'no store into the cache at all: nothing is cached, every call parses the '
             'stripped string afresh', fi.loc)
    # forward substitution of single-definition locals; a local with several definitions cannot be followed
    vals = [(what, lib.inline_locals(expr, fi.node), node, expr) for what, expr, node in uses]
    for what, x, node, expr in vals:
        multi = [n.id for n in ast.walk(x) if isinstance(n, ast.Name) and n.id not in (me, E) and n.id in _assigned(fi.node)]
        if multi:
            r.undecided('MathParser.parse: %s' % what, 'local `%s` has several definitions; cannot tell which string is used' % multi[0],
                        lib.loc(fi, node))
            return
    # (1) one value in every role (probe = membership test / fetch / get, whichever forms the code uses)
    ref_what, ref, ref_node, _ = vals[0]
    same = True
    role_ok = {}
    for what, x, node, expr in vals[1:]:
        role = 'cache key (store)' if 'store' in what else 'cache key (probe)'
        if nf.equal(nf.canon(ref), nf.canon(x)):
            role_ok.setdefault(role, []).append((what, x, node))
            continue
        same = False
        role_ok.setdefault(role, [])
        r.violation('MathParser.parse: %s' % what, 'cache key and parsed text use different normal forms: the %s is `%s` but the '
                    'string handed to raw_parse is `%s`. Two inputs with the same key and different parsed texts share one cache '
                    'entry, so what a string evaluates to (or whether it is rejected) depends on which spelling was parsed first; '
                    'and a string is judged by a text other than the one looked up' % (what, unparse(x), unparse(ref)),
                    lib.loc(fi, node), expected=unparse(ref), found=unparse(x))
    for role, good in sorted(role_ok.items()):
        n_role = sum(1 for what, x, node, expr in vals[1:] if ('store' in what) == ('store' in role))
        if good and len(good) == n_role:
            r.ok('MathParser.parse: %s' % role, 'same value as the parsed string (%s): %s' % (
                ', '.join(w.split('(')[-1].rstrip(')') for w, x, n in good), short(good[0][1])), lib.loc(fi, good[0][2]))
    if 'cache key (probe)' not in role_ok:
        r.undecided('MathParser.parse: cache key (probe)', 'no cache look-up recognised', fi.loc)
    # (2) the normalisation itself: spaces, and only spaces, are removed
    seen = []
    for what, x, node, expr in (vals if not same else vals[:1]):
        if any(nf.equal(nf.canon(x), nf.canon(y)) for y in seen):
            continue
        seen.append(x)
        construct = 'MathParser.parse: normalisation' if same else 'MathParser.parse: normalisation of the %s' % what
        if isinstance(x, ast.Name) and x.id == E:
            r.violation(construct, 'the %s is the raw input: spaces are not removed, so `1 2` is no longer read as 12, `2 x` depends '
                        "on pyparsing's skipping, and differently spaced spellings of one formula are different cache entries"
                        % ('parsed string and cache key' if same else what), lib.loc(fi, node), expected=want, found=unparse(x))
            continue
        res = nf.classify(want, x)
        r.verdict(construct, res, lib.loc(fi, node), '%s (spaces only)' % want, expected=want)


def _assigned(fn):
    """Local names with more than one definition (or defined by loops/augmented assignment)."""
    counts = {}
    for n in walk_own(fn):
        if isinstance(n, ast.Assign):
            for t in n.targets:
                for x in ast.walk(t):
                    if isinstance(x, ast.Name):
                        counts[x.id] = counts.get(x.id, 0) + 1
        elif isinstance(n, (ast.AugAssign, ast.For)):
            for x in ast.walk(n.target):
                if isinstance(x, ast.Name):
                    counts[x.id] = counts.get(x.id, 0) + 2
    return {k for k, v in counts.items() if v > 1}


def d5_whitespace(ctx, idx, st):
    r = ctx.rule('D5.SPACE', 'cache key and parse string are the same space-stripped string; blank input is nan; '
                             'white-space handling of pyparsing is untouched', floor=8)
    with r:
        parse_key_discipline(r, idx)
        # evaluator front door
        ev = idx.func('mitxgraders.helpers.calc.expressions.evaluator')
        F = ev.params[0]
        paths = nf.decision_paths(ev.node.body)
        none_ok = blank_ok = empty_ok = False
        nan_decidable = True
        for p in paths:
            if p.leaf.kind != 'ret':
                continue
            first = p.leaf.expr.elts[0] if isinstance(p.leaf.expr, ast.Tuple) and p.leaf.expr.elts else p.leaf.expr
            is_nan = nf.match("float('nan')", first) is not None or nf.match('_X.nan', first) is not None
            if not is_nan:
                continue
            # the guards of the path, evaluated for: formula None / a formula of blanks only / the empty string
            none_ok = none_ok or all(_front_door(g_, F, 'none') is True for g_ in p.guards)
            blank_ok = blank_ok or all(_front_door(g_, F, 'blank') is True for g_ in p.guards)
            empty_ok = empty_ok or all(_front_door(g_, F, 'empty') is True for g_ in p.guards)
            nan_decidable = nan_decidable and all(_front_door(g_, F, 'blank') is not None for g_ in p.guards)
        if none_ok:
            r.ok('evaluator: None', 'evaluates to nan', ev.loc)
        else:
            r.undecided('evaluator: None', 'no path `formula is None -> nan` recognised', ev.loc)
        if not blank_ok:
            raw = empty_ok and nan_decidable      # '' is mapped to nan, a string of blanks provably is not
            if raw:
                r.violation('evaluator: blank input', 'the emptiness test is applied to the unstripped formula: a submission of '
                            'blanks is sent to the parser and rejected instead of evaluating to nan', ev.loc,
                            expected="formula.strip() == '' -> nan")
            else:
                r.undecided('evaluator: blank input', 'no path `formula.strip() == "" -> nan` recognised', ev.loc)
        else:
            r.ok('evaluator: blank input', 'strip() then empty -> nan', ev.loc)
        # nothing touches pyparsing's white-space handling
        sites = []
        for m in idx.package_modules():
            for n in ast.walk(m.tree):
                if isinstance(n, ast.Call) and nf.callee_name(n) in G.WHITESPACE_CALLS:
                    sites.append((m, n))
        for m, n in sites:
            r.violation('%s: %s' % (m.name, nf.callee_name(n)), 'pyparsing\'s white-space handling is changed by `%s`: tabs '
                        'and line breaks between tokens are no longer skipped uniformly' % short(n), lib.mloc(m, n))
        if not sites:
            r.ok('package: white-space configuration', 'no call of %s' % '/'.join(sorted(x for x in G.WHITESPACE_CALLS if x[0] == 's' and 'W' in x)), '')
        # names are contiguous single tokens
        g = st.get('g') or G.extract(idx)
        for k in ('variable', 'function'):
            alt = st.get('atoms', {}).get(k)
            if alt is None:
                continue
            sh = g.shapes(alt, reps=1)
            first = sh[0][0] if sh and sh[0] else None
            good = first is not None and first[0] == 'text' and first[1].kind == 'combine' and all(s[0] == first or s[0][1] is first[1] for s in sh)
            r.check(good, '%s: name token' % k, 'Combine: one contiguous token',
                    'the name of a %s is not a single Combine token: its pieces arrive separately / may be separated by '
                    'white space, and the evaluator looks up only the first piece' % k, gloc(g, alt))


def _mad_eval(e, a, b, seen):
    """Three-valued value of a guard of evaluator() for the atoms A = `max_array_dim is not None` (value a) and
    B = `used > max_array_dim` (value b); other conditions (which message to use) are unknown (None)."""
    if isinstance(e, ast.Constant):
        return bool(e.value)
    if isinstance(e, ast.BoolOp):
        unknown = False
        for v in e.values:
            x = _mad_eval(v, a, b, seen)
            if isinstance(e.op, ast.And) and x is False:
                return False
            if isinstance(e.op, ast.Or) and x is True:
                return True
            unknown = unknown or x is None
        return None if unknown else isinstance(e.op, ast.And)
    if isinstance(e, ast.UnaryOp) and isinstance(e.op, ast.Not):
        x = _mad_eval(e.operand, a, b, seen)
        return None if x is None else not x
    for pat, val in (('max_array_dim is not None', a), ('max_array_dim is None', not a), ('max_array_dim != None', a),
                     ('max_array_dim == None', not a)):
        if nf.match(pat, e) is not None:
            seen.add('A')
            return val
    for pat, val in (('max_array_dim < _M.max_array_dim_used', b), ('_M.max_array_dim_used <= max_array_dim', not b)):
        if nf.match(pat, e) is not None:
            seen.add('B')
            return val
    for pat, val in (('max_array_dim <= _M.max_array_dim_used', b), ('_M.max_array_dim_used < max_array_dim', not b)):
        if nf.match(pat, e) is not None:
            seen.add('B-nonstrict')
            seen.add(('nonstrict', unparse(e)))
            return val
    return None


def _mentions_limit(g_):
    """Does a guard constrain the limit/depth relation (as opposed to `max_array_dim == 0`-style message selection)?"""
    uses = 'max_array_dim' in lib.names_in(g_) or any(isinstance(n, ast.Attribute) and n.attr == 'max_array_dim_used' for n in ast.walk(g_))
    if not uses:
        return False
    for c in nf.conjuncts(g_):
        b = nf.match('max_array_dim == _C', c) or nf.match('max_array_dim != _C', c)
        if b is not None and isinstance(b.get('_C'), ast.Constant) and b['_C'].value is not None:
            continue
        if 'max_array_dim' in lib.names_in(c) or any(isinstance(n, ast.Attribute) and n.attr == 'max_array_dim_used' for n in ast.walk(c)):
            return True
    return False


def _max_array_dim_guard(r, idx, ev):
    """The refusal of too deep array literals, read off the decision paths of evaluator(): whatever the nesting (one
    guarded block, guard-clause return followed by raises, ...), for the four truth assignments of
    A = `max_array_dim is not None` and B = `used > max_array_dim` every path that is feasible under A and B must raise
    UnableToParse, and no path feasible under another assignment may raise it."""
    paths = [p for p in nf.decision_paths(ev.node.body) if any('max_array_dim' in lib.names_in(g_) for g_ in p.guards)]
    if not paths:
        used = any(isinstance(n, ast.Name) and n.id == 'max_array_dim' for n in walk_own(ev.node))
        if used or idx.unreviewed:
            r.undecided('evaluator: max_array_dim', 'max_array_dim is used, but no guarded refusal was recognised', ev.loc)
        else:
            r.violation('evaluator: max_array_dim', 'the max_array_dim argument is never looked at: array literals of any depth '
                        'are evaluated', ev.loc)
        return
    seen = set()
    problems = []
    classes = set()
    unknown = False
    for a in (True, False):
        for b in (True, False):
            for p in paths:
                vals = [_mad_eval(g_, a, b, seen) for g_ in p.guards]
                if any(v is False for v in vals):
                    continue                      # path not taken under this assignment
                relevant_unknown = any(v is None and _mentions_limit(g_) for v, g_ in zip(vals, p.guards))
                if relevant_unknown:
                    unknown = True
                    continue
                refuses = p.leaf.kind == 'raise'
                if refuses:
                    classes.add(nf.exc_class_name(p.leaf.expr))
                if a and b and not refuses:
                    problems.append((p, 'an array literal deeper than max_array_dim is evaluated and returned (path with guards `%s`)'
                                     % ' and '.join(unparse(g_) for g_ in p.guards)))
                if not (a and b) and refuses and (a or not b):
                    problems.append((p, 'the refusal is also reached when %s (path with guards `%s`)' % (
                        'no limit is set (max_array_dim is None)' if not a else 'the array depth does not exceed the limit',
                        ' and '.join(unparse(g_) for g_ in p.guards))))
    where = lib.loc(ev, paths[0].leaf.stmt) if paths[0].leaf.stmt is not None else ev.loc
    nonstrict = sorted(x[1] for x in seen if isinstance(x, tuple))
    if nonstrict:
        r.violation('evaluator: max_array_dim guard', 'the comparison `%s` is not strict: the limit is inclusive -- an array literal of '
                    'exactly max_array_dim dimensions must be evaluated and only deeper ones refused' % nonstrict[0], where,
                    expected='max_array_dim is not None and used > max_array_dim', found=nonstrict[0])
    elif unknown or not {'A', 'B'} <= seen:
        r.undecided('evaluator: max_array_dim guard', 'conditions on max_array_dim not recognised (need `max_array_dim is not None` and '
                    '`used > max_array_dim`)', where)
    elif problems:
        r.violation('evaluator: max_array_dim guard', problems[0][1], where, expected='refuse exactly when max_array_dim is not None and '
                    'used > max_array_dim')
    else:
        r.ok('evaluator: max_array_dim guard', 'refuses exactly when max_array_dim is not None and used > max_array_dim (strict), '
             'whatever the nesting', where)
    if classes:
        r.check(classes == {'UnableToParse'}, 'evaluator: max_array_dim error', 'UnableToParse',
                'too deep array literals are refused with %s instead of UnableToParse' % sorted(classes), where)
    else:
        r.undecided('evaluator: max_array_dim error', 'no refusing path found', where)


def _front_door(e, F, scen):
    """Three-valued value of a guard of evaluator() when the formula parameter F is None ('none'), a non-empty string of
    blanks ('blank') or '' ('empty').  None = unknown / would raise."""
    if isinstance(e, ast.Constant):
        return bool(e.value)
    if isinstance(e, ast.BoolOp):
        vals = []
        for v in e.values:
            x = _front_door(v, F, scen)
            if isinstance(e.op, ast.And) and x is False:
                return False
            if isinstance(e.op, ast.Or) and x is True:
                return True
            if x is None:
                return None          # evaluation order: an unknown/raising operand is reached
            vals.append(x)
        return isinstance(e.op, ast.And)
    if isinstance(e, ast.UnaryOp) and isinstance(e.op, ast.Not):
        x = _front_door(e.operand, F, scen)
        return None if x is None else not x

    def text(x):
        """'NONE' | the string value of x in the scenario | None (unknown)."""
        if isinstance(x, ast.Name) and x.id == F:
            return {'none': 'NONE', 'blank': '  ', 'empty': ''}[scen]
        if isinstance(x, ast.Constant) and isinstance(x.value, str):
            return x.value
        if isinstance(x, ast.Constant) and x.value is None:
            return 'NONE'
        if isinstance(x, ast.IfExp):
            t_ = _front_door(x.test, F, scen)
            if t_ is None:
                return None
            return text(x.body if t_ else x.orelse)
        if isinstance(x, ast.Call) and isinstance(x.func, ast.Attribute) and x.func.attr in ('strip', 'lstrip', 'rstrip') and not x.args:
            inner = text(x.func.value)
            if inner is None or inner == 'NONE':
                return None          # None.strip() raises
            return getattr(inner, x.func.attr)()
        return None
    if isinstance(e, ast.Compare) and len(e.ops) == 1:
        a, b = text(e.left), text(e.comparators[0])
        if a is None or b is None:
            return None
        if isinstance(e.ops[0], (ast.Is, ast.Eq)):
            return a == b if not (isinstance(e.ops[0], ast.Is) and 'NONE' not in (a, b)) else None
        if isinstance(e.ops[0], (ast.IsNot, ast.NotEq)):
            return a != b if not (isinstance(e.ops[0], ast.IsNot) and 'NONE' not in (a, b)) else None
        return None
    t = text(e)
    if t is not None:
        return t not in ('NONE', '')
    return None


# ----------------------------------------------------------------------------- D6
def d6_rejection(ctx, idx, st):
    r = ctx.rule('D6.REJECT', 'whole-string match, non-empty brackets, no juxtaposition / foreign or doubled operators, '
                              'strict max_array_dim refusal', floor=18)
    with r:
        g = st.get('g') or G.extract(idx)
        fwd, atom = st.get('forward'), st.get('atom')
        if fwd is None or atom is None:
            raise AnalysisError('precedence chain not available')
        # -- stringEnd / parseAll
        rp = idx.func(MP + '.raw_parse')
        pcs = lib.calls_named(rp.node, ('parseString', 'parse_string'))
        if len(pcs) != 1:
            raise AnalysisError('raw_parse: expected one parseString call')
        pc = pcs[0]
        pall = lib.get_kw(pc, 'parseAll', 1) or lib.get_kw(pc, 'parse_all')
        parse_all = pall is not None and nf.const_value(pall) is True
        root = g.root
        has_end = root.kind == 'and' and root.kids[-1].kind == 'end'
        r.check(has_end or parse_all, 'get_grammar: returned term', 'expression + stringEnd',
                'the returned grammar is `%s` without stringEnd (and parseString is not called with parseAll=True): a valid '
                'prefix is evaluated and trailing garbage such as `1+2)(`/`2 3` is silently ignored' % root.describe(1),
                '%s:%d' % (g.module.relpath, g.root_stmt.lineno), expected='expression + stringEnd')
        # the grammar used by raw_parse is get_grammar's
        init = idx.func(MP + '.__init__')
        recv = pc.func.value
        attr = recv.attr if isinstance(recv, ast.Attribute) and isinstance(recv.value, ast.Name) and recv.value.id == rp.params[0] else None
        bound = [n for n in walk_own(init.node) if isinstance(n, ast.Assign) and any(
            isinstance(t, ast.Attribute) and t.attr == attr for t in n.targets)] if attr else []
        good = len(bound) == 1 and isinstance(bound[0].value, ast.Call) and nf.callee_name(bound[0].value) == 'get_grammar'
        if attr is None or not bound:
            r.undecided('raw_parse: grammar object', 'cannot relate `%s` to get_grammar()' % short(recv), lib.loc(rp, pc))
        else:
            r.check(good, 'raw_parse: grammar object', 'self.%s = self.get_grammar()' % attr,
                    'self.%s is not the result of get_grammar()' % attr, lib.loc(init, bound[0]))
        arg_ok = len(pc.args) >= 1 and isinstance(pc.args[0], ast.Name) and pc.args[0].id == rp.params[1]
        r.check(arg_ok, 'raw_parse: parsed text', 'the whole argument', 'parseString is applied to `%s`, not to the string '
                'raw_parse was given' % (short(pc.args[0]) if pc.args else ''), lib.loc(rp, pc))
        # -- brackets cannot be empty
        for k in ('function', 'parentheses', 'array'):
            alt = st.get('atoms', {}).get(k)
            if alt is None:
                continue
            body = alt.kids[0]
            seq = list(body.kids) if body.kind == 'and' and not body.origin else [body]
            opened = False
            inner = []
            for t in seq:
                lits = g.literal_tokens(t)
                if not opened:
                    opened = lits in ({'('}, {'['})
                    continue
                if lits in ({')'}, {']'}):
                    break
                inner.append(t)
            if not inner:
                raise AnalysisError('%s: nothing between the brackets' % k)
            nullable = all(g.nullable(t) for t in inner)
            r.check(not nullable, '%s: content' % k, 'at least one expression',
                    'the content of %s may be empty: `%s` is accepted and evaluated instead of being rejected' % (
                        k, {'function': 'f()', 'parentheses': '()', 'array': '[]'}[k]), gloc(g, alt))
        # -- juxtaposition / foreign operators
        fo, fi_ = g.follow(atom), g.first(atom)
        jux = fo & fi_
        r.check(not jux, 'FOLLOW(atom) vs FIRST(atom)', 'disjoint: FIRST = %s ; FOLLOW = %s' % (G.show_chars(fi_), G.show_chars(fo)),
                'an operand may be followed directly by another operand (characters %s): juxtaposition such as `2 x`, `x y` or '
                '`x(y)` is given a value instead of being rejected' % G.show_chars(jux), gloc(g, atom),
                expected='FOLLOW(atom) within %s' % G.show_chars(ALLOWED_FOLLOW), found=G.show_chars(fo))
        foreign = fo - ALLOWED_FOLLOW - fi_
        r.check(not foreign, 'FOLLOW(atom): operators', 'only documented operators, separators and closers',
                'an operand may be followed by %s, which is not an operator of the documented grammar' % G.show_chars(foreign),
                gloc(g, atom), expected=G.show_chars(ALLOWED_FOLLOW), found=G.show_chars(fo))
        # -- doubled operators: after an infix operator only a minus sign may precede the operand
        for lv in st.get('levels', []):
            if lv.star is None:
                continue
            kind = st['kinds'].get(id(lv)) or lv.label
            start = g.first(lv.body_operand) & OPERATOR_CHARS
            r.check(start <= {'-', EMDASH}, 'level %s: operand start' % kind, 'an operand starts with a sign only if it is a minus',
                    "the operand after %s may start with %s: doubled operators such as `1*%s2` are accepted" % (
                        opset(lv.infix_ops), opset(start - {'-', EMDASH}), sorted(start - {'-', EMDASH})[0] if start - {'-', EMDASH} else ''),
                    gloc(g, lv.term))
        # -- the alphabet
        chars = g.terminals()
        allowed = set(G.ALPHAS + G.NUMS + "._{}^-'()[],+*/|%" + EMDASH)
        r.check(chars <= allowed, 'grammar alphabet', 'letters digits . _ { } ^ - \' ( ) [ ] , + * / | % em-dash',
                'the grammar mentions foreign characters %s' % G.show_chars(chars - allowed), gloc(g, fwd))
        # -- max_array_dim
        ev = idx.func('mitxgraders.helpers.calc.expressions.evaluator')
        if 'max_array_dim' not in ev.all_params:
            raise AnalysisError('evaluator has no max_array_dim parameter')
        _max_array_dim_guard(r, idx, ev)
        ea = idx.func(ME + '.eval_array')
        D = ea.params[1] if len(ea.params) > 1 else None
        stores = [n for n in walk_own(ea.node) if isinstance(n, ast.Assign) and any(
            isinstance(t, ast.Subscript) and lib.subscript_key(t) == 'max_array_dim_used' for t in n.targets)]
        if not stores:
            used = D is not None and any(isinstance(n, ast.Name) and n.id == D for n in walk_own(ea.node))
            if used or idx.unreviewed:
                r.undecided('eval_array: depth record', 'the metadata argument is used, but no store of the depth was recognised', ea.loc)
            else:
                r.violation('eval_array: depth record', "eval_array never touches its metadata argument: the dimension it builds is "
                            "not recorded in metadata['max_array_dim_used'], so the max_array_dim limit is never exceeded", ea.loc)
        for s_ in stores:
            val = lib.inline_locals(s_.value, ea.node)
            if nf.match('max(_A, _B)', val) is not None:
                r.ok('eval_array: depth record', 'max(...)', lib.loc(ea, s_))
                continue
            test = None
            for a in lib.ancestors(s_):
                if isinstance(a, ast.If):
                    test = a.test
                    break
            if test is None:
                r.undecided('eval_array: depth record', 'unconditional store', lib.loc(ea, s_))
                continue
            res = nf.classify(["_D['max_array_dim_used'] < _A.ndim", "_D['max_array_dim_used'] <= _A.ndim"], test)
            r.verdict('eval_array: depth record', res, lib.loc(ea, s_), 'stores ndim when larger', expected="array.ndim > md['max_array_dim_used']")
            r.check(nf.match('_A.ndim', val) is not None, 'eval_array: recorded value', 'array.ndim',
                    'the recorded depth is `%s`, not the dimension of the array just built' % short(val), lib.loc(ea, s_))
        # eval hands the recorded depth out
        evm = idx.func(ME + '.eval')
        md = [c for c in lib.calls_named(evm.node, 'EvalMetaData')]
        if len(md) != 1:
            raise AnalysisError('MathExpression.eval: expected one EvalMetaData construction')
        v = lib.get_kw(md[0], 'max_array_dim_used', 3)
        good = v is not None and isinstance(v, ast.Subscript) and lib.subscript_key(v) == 'max_array_dim_used'
        node_call = lib.one_call(evm, 'eval_node')
        ordered = lib.dominated(evm, [node_call], [md[0]])
        r.check(good and ordered, 'MathExpression.eval: max_array_dim_used', 'read from the metadata dict after the tree was evaluated',
                'EvalMetaData.max_array_dim_used is `%s`%s: the depth recorded by eval_array does not reach evaluator()'
                % (short(v) if v is not None else 'missing', '' if ordered else ' and is read before eval_node ran'), lib.loc(evm, md[0]))


STOP_PROBES = ['1e', '5eV', '2E', '1em', '3ek', "x'", 'x_1', 'x_{1}', 'x^{2}', 'x^2', 'x_{1}^{2}', 'f(x)', 'f(x,y)', '(1)', '[1,2]',
               '1||2', '1+2', '1-2', '2*3', '2/3', '2^3', '2^-3', '-1', '+1', '1.5', '.5', '1.', '1e3', '1e-3', '2k', '3%']


def d6_error_stops(ctx, idx, st):
    r = ctx.rule('D6.STOPS', 'error stops (`a - b`) in the grammar do not change the set of accepted strings', floor=1)
    with r:
        g = st.get('g') or G.extract(idx)
        stops = [t for t in g.error_stops if g.reachable(t)]
        if not stops:
            r.ok('grammar: error stops', 'none: every sequence backtracks normally', gloc(g, g.root), nontrivial=False)
            return
        for t in stops:
            verdict, info = g.commit_analysis(t)
            construct = 'error stop in `%s`' % t.describe(2)
            where = gloc(g, t)
            if verdict == 'nullable-rest':
                r.ok(construct, 'the elements after the stop cannot fail', where)
                continue
            if verdict == 'committed':
                r.ok(construct, 'nothing else can consume text that starts like the elements before the stop (2 characters of '
                     'look-ahead): aborting instead of backtracking rejects the same strings (only the exception class of a '
                     'rejection changes, see C02)', where)
                continue
            witness = [s_ for s_ in STOP_PROBES + PROBE_YES if g.outcome(s_.replace(' ', ''), stops=False) == 'accept'
                       and g.outcome(s_.replace(' ', ''), stops=True) != 'accept']
            if witness:
                r.violation(construct, 'once `%s` has matched, a failure of the rest aborts the whole parse instead of backtracking, '
                            'but %s can also consume that text: %s %s accepted by the grammar without the stop and rejected with it'
                            % (' '.join(k.describe(1) for k in t.kids[:t.stop]), info[0][0],
                               ', '.join(repr(w) for w in witness[:3]), 'is' if len(witness) == 1 else 'are'), where,
                            expected='`+` (plain sequence)', found='`-` (error stop)')
            else:
                r.undecided(construct, 'the text before the stop can also be consumed by %s (e.g. %s); no probe string separates the two '
                            'grammars' % (info[0][0], ', '.join(repr(x) for x in info[0][1][:2])), where)


# ----------------------------------------------------------------------------- D7
def case_folded(sp):
    """Look-up atoms of the space whose key is a token with string methods applied: [(role, ops)]."""
    out = []
    for key in sp.atoms:
        if key[0] == 'lookup' and isinstance(key[2], tuple) and key[2] and key[2][0] != 'const' and len(key[2]) > 1:
            out.append((key[1], key[2][1:]))
    return out


def d7_case(ctx, idx, st):
    r = ctx.rule('D7.CASE', 'names and suffixes are looked up in the scope by the parsed token itself', floor=6)
    with r:
        g = st.get('g') or G.extract(idx)
        h = Harness(idx)
        want = {'number': 'suffixes', 'variable': 'variables', 'function': 'functions'}
        for k in ('number', 'variable', 'function'):
            alt = st.get('atoms', {}).get(k)
            if alt is None:
                continue
            seq = max(g.shapes(alt, reps=2), key=len)
            holder = {}

            def build(sp, seq=seq, holder=holder):
                vals, leaves = tokens_to_values(sp, seq, g)
                holder['vals'], holder['leaves'] = vals, leaves
                return S.PNode(alt.name, vals)
            sp, paths = h.run(build)
            vals = holder['vals']
            tok = vals[1] if k == 'number' else vals[0]
            role = want[k]
            lookups = [key for key in sp.atoms if key[0] == 'lookup'] + \
                      [key[1] for key in sp.atoms if key[0] == 'call' and isinstance(key[1], tuple) and key[1][0] == 'lookup']
            tgt = {'number': 'eval_number', 'variable': 'eval_variable', 'function': 'eval_function'}[k]
            where = idx.func(ME + '.' + tgt).loc if idx.has_func(ME + '.' + tgt) else ''
            construct = '%s: scope look-up' % k
            folded = [key for key in lookups if len(key[2]) > 1 and key[2][0] != 'const']
            wrong_role = [key for key in lookups if key[1] != role]
            rets = [p for p in paths if p.kind == 'ret']
            if any(lost(p.value) for p in rets) and not folded and not wrong_role:
                r.undecided(construct, 'handler expression not resolved by the symbolic evaluator', where)
                continue
            if folded:
                ops = folded[0][2][1:]
                if set(ops) & S.CASE_METHODS:
                    r.violation(construct, 'the %s token is looked up as <token>.%s(): names that differ only in case resolve to '
                                'the same entry (or to none), although the grammar is case-sensitive' % (k, '().'.join(ops)),
                                where, expected='%s[<token>]' % role, found='%s[<token>.%s()]' % (folded[0][1], '().'.join(ops)))
                else:
                    r.undecided(construct, 'token transformed by .%s() before the look-up' % '().'.join(ops), where)
                continue
            if wrong_role:
                r.violation(construct, 'the %s token is looked up in `%s` instead of `%s`' % (k, wrong_role[0][1], role), where,
                            expected='%s[<token>]' % role, found='%s[<token>]' % wrong_role[0][1])
                continue
            plain = [key for key in lookups if key[1] == role and key[2] == tok.key]
            if not plain or not rets:
                r.violation(construct, 'no evaluation path looks the %s token up in `%s` (found look-ups: %s)' % (
                    k, role, [key[1:] for key in lookups] or 'none'), where, expected='%s[<token>]' % role)
                continue
            if k == 'variable':
                expect = sp.lookup(role, tok)
                bad = [p for p in rets if not sp.equal(p.value, expect)]
                r.check(not bad, construct, S.show(expect), 'a variable evaluates to %s instead of its value in the scope'
                        % (S.show(bad[0].value) if bad else ''), where, expected=S.show(expect))
            elif k == 'function':
                fsym = ('lookup', role, tok.key)
                args = holder['leaves']
                expect = sp.call(fsym, '%s[%s]' % (role, tok.text), args)
                bad = [p for p in rets if not sp.equal(p.value, expect)]
                raises = {p.value.cls for p in paths if p.kind == 'raise'}
                r.check(not bad and raises <= {'ArgumentError'}, construct, S.show(expect),
                        ('a function call evaluates to %s' % S.show(bad[0].value)) if bad else
                        'a well-formed call raises %s' % sorted(raises - {'ArgumentError'}), where, expected=S.show(expect))
            else:
                r.ok(construct, '%s[<suffix>]' % role, where)
        # check_scope: membership is tested with the recorded name itself
        cs = idx.func(ME + '.check_scope')
        seen = 0
        cs_nodes = list(walk_own(cs.node)) + [n for root in _unrolled_rows(cs.node, idx, cs) for n in ast.walk(root)]
        for comp in [n for n in cs_nodes if isinstance(n, (ast.GeneratorExp, ast.ListComp, ast.SetComp))]:
            if len(comp.generators) != 1:
                continue
            gen = comp.generators[0]
            it = gen.iter
            if not (isinstance(it, ast.Attribute) and it.attr in ('variables_used', 'functions_used', 'suffixes_used')):
                continue
            if not isinstance(gen.target, ast.Name) or not gen.ifs:
                continue
            seen += 1
            v = gen.target.id
            scope = {'variables_used': 'variables', 'functions_used': 'functions', 'suffixes_used': 'suffixes'}[it.attr]
            res = nf.classify('%s not in %s' % (v, scope), gen.ifs[0])
            if res == nf.MATCH:
                r.ok('check_scope: %s' % it.attr, 'tested as recorded against `%s`' % scope, lib.loc(cs, comp))
                continue
            left = gen.ifs[0].left if isinstance(gen.ifs[0], ast.Compare) else None
            if isinstance(left, ast.Call) and isinstance(left.func, ast.Attribute) and left.func.attr in S.CASE_METHODS:
                r.violation('check_scope: %s' % it.attr, 'the scope test folds case (`%s`): a name is accepted by check_scope and '
                            'then fails (KeyError) or resolves differently at look-up' % short(gen.ifs[0]), lib.loc(cs, comp))
            elif isinstance(res, tuple):
                r.violation('check_scope: %s' % it.attr, res[1], lib.loc(cs, comp), expected='%s not in %s' % (v, scope))
            else:
                r.undecided('check_scope: %s' % it.attr, 'test `%s` not recognised' % short(gen.ifs[0]), lib.loc(cs, comp))
        # the same test written as set algebra: set(self.X_used).difference(scope) / set(self.X_used) - set(scope)
        SCOPE = {'variables_used': 'variables', 'functions_used': 'functions', 'suffixes_used': 'suffixes'}
        done = set()
        for o in r.obligations:
            for k in SCOPE:
                if o.construct == 'check_scope: %s' % k:
                    done.add(k)

        def used_attr(e):
            if isinstance(e, ast.Call) and isinstance(e.func, ast.Name) and e.func.id in ('set', 'frozenset', 'list', 'sorted') and len(e.args) == 1:
                e = e.args[0]
            if isinstance(e, ast.Attribute) and e.attr in SCOPE and isinstance(e.value, ast.Name) and e.value.id == cs.params[0]:
                return e.attr
            return None

        def scope_of(e):
            if isinstance(e, ast.Call) and isinstance(e.func, ast.Name) and e.func.id in ('set', 'frozenset', 'list') and len(e.args) == 1:
                e = e.args[0]
            if isinstance(e, ast.Call) and isinstance(e.func, ast.Attribute) and e.func.attr == 'keys' and not e.args:
                e = e.func.value
            return e.id if isinstance(e, ast.Name) else None
        for n in cs_nodes:
            left = right = None
            if isinstance(n, ast.Call) and isinstance(n.func, ast.Attribute) and n.func.attr == 'difference' and len(n.args) == 1:
                left, right = n.func.value, n.args[0]
            elif isinstance(n, ast.BinOp) and isinstance(n.op, ast.Sub):
                left, right = n.left, n.right
            if left is None:
                continue
            k = used_attr(left)
            if k is None or k in done:
                continue
            sc = scope_of(right)
            if sc is None:
                r.undecided('check_scope: %s' % k, 'set difference against `%s` not recognised' % short(right), lib.loc(cs, n))
            elif sc == SCOPE[k]:
                r.ok('check_scope: %s' % k, 'set difference of the recorded names and `%s`' % sc, lib.loc(cs, n))
            else:
                r.violation('check_scope: %s' % k, 'the recorded %s are checked against `%s` instead of `%s`' % (k.split('_')[0], sc, SCOPE[k]),
                            lib.loc(cs, n), expected=SCOPE[k], found=sc)
            done.add(k)
        for k in sorted(set(SCOPE) - done):
            r.undecided('check_scope: %s' % k, 'no membership test of self.%s against `%s` recognised' % (k, SCOPE[k]), cs.loc)


class _Fold(ast.NodeTransformer):
    """getattr(x, 'name') -> x.name ; (a, b, c)[1] -> b"""

    def visit_Call(self, node):
        self.generic_visit(node)
        if isinstance(node.func, ast.Name) and node.func.id == 'getattr' and len(node.args) == 2 and not node.keywords \
                and isinstance(node.args[1], ast.Constant) and isinstance(node.args[1].value, str):
            return ast.copy_location(ast.Attribute(value=node.args[0], attr=node.args[1].value, ctx=ast.Load()), node)
        return node

    def visit_Subscript(self, node):
        self.generic_visit(node)
        if isinstance(node.value, (ast.Tuple, ast.List)) and isinstance(node.slice, ast.Constant) and isinstance(node.slice.value, int) \
                and not isinstance(node.slice.value, bool) and -len(node.value.elts) <= node.slice.value < len(node.value.elts):
            return node.value.elts[node.slice.value]
        return node


def _literal_table(idx, fi, expr, env):
    """The literal table (List/Tuple display of rows) an expression denotes: a display, a local bound to one, a class-level
    attribute `self.T` / `Class.T`, or a call `self.m(args)` of a method whose body just returns a display."""
    from ..effects import map_args
    if isinstance(expr, ast.Name):
        expr = env.get(expr.id)
    if isinstance(expr, (ast.List, ast.Tuple)):
        return expr
    if isinstance(expr, ast.Attribute) and isinstance(expr.value, ast.Name) and fi is not None and fi.cls is not None \
            and expr.value.id in (fi.params[0] if fi.params else None, fi.cls.name):
        k, v = idx.lookup_attr(fi.cls, expr.attr)
        if isinstance(v, (ast.List, ast.Tuple)):
            return v
    if isinstance(expr, ast.Call) and isinstance(expr.func, ast.Attribute) and isinstance(expr.func.value, ast.Name) \
            and fi is not None and fi.cls is not None and fi.params and expr.func.value.id in (fi.params[0], fi.cls.name):
        m = idx.lookup(fi.cls, expr.func.attr)
        if m is not None:
            body = [s_ for s_ in m.node.body if not (isinstance(s_, ast.Expr) and isinstance(s_.value, ast.Constant))]
            amap = {p_: a for p_, a in map_args(m, expr).items() if a is not None}
            if len(body) == 1 and isinstance(body[0], ast.Return) and isinstance(body[0].value, (ast.List, ast.Tuple)):
                return nf.subst(body[0].value, amap)
            if body and all(isinstance(s_, ast.Expr) and isinstance(s_.value, ast.Yield) and s_.value.value is not None for s_ in body):
                # a generator that yields its rows one after the other, in straight line
                rows = ast.List(elts=[s_.value.value for s_ in body], ctx=ast.Load())
                ast.copy_location(rows, body[0])
                return nf.subst(rows, amap)
    return None


def _unrolled_rows(fn, idx=None, fi=None):
    """For every `for a, b, ... in <literal table of tuples>` of fn: the loop body once per row, with the loop variables
    replaced by the row's entries, simple locals of the body substituted forward and `getattr(x, 'n')` / `(a, b)[i]` folded
    (a loop over an ordered literal table is a closed form of the repeated blocks)."""
    out = []
    env = lib.local_env(fn)
    fold = _Fold()
    for loop in [n for n in walk_own(fn) if isinstance(n, ast.For)]:
        table = _literal_table(idx, fi, loop.iter, env) if idx is not None else (
            env.get(loop.iter.id) if isinstance(loop.iter, ast.Name) else loop.iter)
        if not isinstance(table, (ast.List, ast.Tuple)) or not table.elts:
            continue
        tgt = loop.target
        if isinstance(tgt, ast.Name):
            names = [tgt.id]
        elif isinstance(tgt, (ast.Tuple, ast.List)) and all(isinstance(t, ast.Name) for t in tgt.elts):
            names = [t.id for t in tgt.elts]
        else:
            continue
        rows = []
        for row in table.elts:
            if isinstance(tgt, ast.Name):
                rows.append({names[0]: row})
            elif isinstance(row, (ast.Tuple, ast.List)) and len(row.elts) == len(names):
                rows.append(dict(zip(names, row.elts)))
            else:
                rows = None
                break
        if not rows:
            continue
        outer = {k: v for k, v in env.items() if isinstance(v, (ast.Tuple, ast.List, ast.Name, ast.Attribute))}
        for renv in rows:
            env2 = dict(outer)
            env2.update(renv)
            for s_ in loop.body:
                st_ = fold.visit(nf.subst(s_, env2))
                ast.fix_missing_locations(st_)
                if isinstance(st_, ast.Assign) and len(st_.targets) == 1 and isinstance(st_.targets[0], ast.Name):
                    env2[st_.targets[0].id] = st_.value
                out.append(st_)
    return out


# ------------------------------------------------------------------------- thorough tier
PROBE_YES = ['1', '1+2', '+1', '-1', '1--1', '2^-2', '2^-2^2', '-2^2', '2*-3', '1||2', '1 || 2', 'x', "x'", 'x_1',
             'x_{12}^{3}', 'x_{-1}', 'f(1)', 'f(x, y)', "f'(x)", 'f\t(x)', '(1)', '((1+2))*3', '[1,2]', '[[1,2],[3,4]]', '2k',
             '3%', '1e3', '1.5E-3m', '1\t+\n2', 'a^b^c', u'2^\u20142', u'1\u20142', '+-1', '(+1)', 'x^{2}', 'x_y_z', '1 2']
PROBE_NO = ['', '1+', '*1', '1**2', '1//2', '1^^2', '1++2', '1-+2', '--1', '1|2', '1|||2', '2\t3', 'x\ty', '2\t(3)',
            '(1)(2)', 'x(', '()', '[]', 'f()', 'f(,)', '[1,]', '1,2', '1$2', '2!', 'x"', '1=1', '{1}', 'x_{a', '.', '1..2',
            '1\t.5', 'x\t_1', '2^+2']


def thorough(ctx):
    """Independent cross-check of the FIRST/FOLLOW conclusions: the extracted term graph is run as a recogniser
    (model of pyparsing's matching, sa.grammar.Grammar.match) on probe strings taken from the property statement
    (valid forms; doubled operators, juxtaposition across a tab, empty brackets, foreign characters).  Spaces are
    removed first, as MathParser.parse does (D5)."""
    idx = ctx.index
    r = ctx.rule('T.PROBE', 'probe strings: the extracted grammar accepts the documented forms and rejects doubled operators, '
                            'juxtaposition, empty brackets and foreign characters', floor=len(PROBE_YES) + len(PROBE_NO))
    with r:
        g = G.extract(idx)
        rp = idx.func(MP + '.raw_parse')
        pcs = lib.calls_named(rp.node, ('parseString', 'parse_string'))
        pall = (lib.get_kw(pcs[0], 'parseAll', 1) or lib.get_kw(pcs[0], 'parse_all')) if len(pcs) == 1 else None
        parse_all = pall is not None and nf.const_value(pall) is True
        for s_, want in [(x, True) for x in PROBE_YES] + [(x, False) for x in PROBE_NO]:
            text = s_.replace(' ', '')
            end = g.match(g.root, text, 0)
            # parseString semantics: a matching prefix is enough unless parseAll=True
            got = end is not None and (not parse_all or g.match(G.Term('end'), text, end) is not None)
            r.check(got == want, 'probe %r' % s_, 'accepted' if want else 'rejected',
                    'the extracted grammar %s %r, which the documented grammar %s' % (
                        'accepts' if got else 'rejects', s_, 'rejects' if got else 'accepts'),
                    '%s:%d' % (g.module.relpath, g.fi.node.lineno), expected='accepted' if want else 'rejected')


# ------------------------------------------------------------------------ self-test
_SWAP_OLD = """        pipes = Literal('|') + Literal('|')
        parallel = negation + ZeroOrMore(Suppress(pipes) + negation)
        parallel.addParseAction(self.group_if_multiple('parallel'))

        # Define multiplication and division
        product = parallel + ZeroOrMore((Literal('*') | Literal('/'))("op") + parallel)
        product.addParseAction(self.group_if_multiple('product'))

        # Define sums and differences
        # Note that leading - signs are treated by negation
        sumdiff = Optional(plus) + product + ZeroOrMore(plus_minus("op") + product)
"""
_SWAP_NEW = """        pipes = Literal('|') + Literal('|')
        product = negation + ZeroOrMore((Literal('*') | Literal('/'))("op") + negation)
        product.addParseAction(self.group_if_multiple('product'))

        parallel = product + ZeroOrMore(Suppress(pipes) + product)
        parallel.addParseAction(self.group_if_multiple('parallel'))

        sumdiff = Optional(plus) + parallel + ZeroOrMore(plus_minus("op") + parallel)
"""
_NEG_OLD = """        power = atom + ZeroOrMore(Suppress("^") + Optional(minus)("op") + atom)
        power.addParseAction(self.group_if_multiple('power'))

        # Define negation (e.g., in 5*-3 --> we need to evaluate the -3 first)
        # Negation in powers is handled separately
        # This has been arbitrarily assigned a higher precedence than parallel
        negation = Optional(minus)("op") + power
        negation.addParseAction(self.group_if_multiple('negation'))

        # Define the parallel operator 1 || 5 == 1/(1/1 + 1/5)
        pipes = Literal('|') + Literal('|')
        parallel = negation + ZeroOrMore(Suppress(pipes) + negation)
"""
_NEG_NEW = """        negation = Optional(minus)("op") + atom
        negation.addParseAction(self.group_if_multiple('negation'))

        power = negation + ZeroOrMore(Suppress("^") + Optional(minus)("op") + negation)
        power.addParseAction(self.group_if_multiple('power'))

        pipes = Literal('|') + Literal('|')
        parallel = power + ZeroOrMore(Suppress(pipes) + power)
"""
_TABLE = "METRIC_SUFFIXES = {\n    'k': 1e3, 'M': 1e6, 'G': 1e9, 'T': 1e12,\n    'm': 1e-3, 'u': 1e-6, 'n': 1e-9, 'p': 1e-12\n}\n"
_LOOP = "METRIC_SUFFIXES = {}\nfor step, (multiple, fraction) in enumerate(zip('kMGT', '%s'), start=1):\n    METRIC_SUFFIXES[multiple] = float('1e{}'.format(3 * step))\n    METRIC_SUFFIXES[fraction] = float('1e-{}'.format(3 * step))\n"
_PRODUCT = "product = parallel + ZeroOrMore((Literal('*') | Literal('/'))(\"op\") + parallel)"

_LEVELS_OLD = _NEG_OLD[:_NEG_OLD.index("        pipes = ")] + _SWAP_OLD + "        sumdiff.addParseAction(self.group_if_multiple('sum'))\n"
_LEVELS_NEW = ("        sign = Optional(minus)(\"op\")\n        pipes = Literal('|') + Literal('|')\n        levels = [\n"
               "            ('power', Suppress(\"^\") + sign, None),\n%s"
               "            ('product', (Literal('*') | Literal('/'))(\"op\"), None),\n            ('sum', plus_minus(\"op\"), Optional(plus)),\n        ]\n"
               "        operand = atom\n        for level_name, infix, prefix in levels:\n            level = operand\n"
               "            if infix is not None:\n                level = level + ZeroOrMore(infix + operand)\n"
               "            if prefix is not None:\n                level = prefix + level\n"
               "            level.addParseAction(self.group_if_multiple(level_name))\n            operand = level\n")
_ROW_NEG = "            ('negation', None, sign),\n"
_ROW_PAR = "            ('parallel', Suppress(pipes), None),\n"

MUTANTS = [
    # D1
    Mutant('levels-from-a-table-with-two-rows-swapped', EXPR, [(_LEVELS_OLD, _LEVELS_NEW % (_ROW_PAR + _ROW_NEG)),
                                                                ("expression << sumdiff", "expression << operand")], None, 'D1',
           note='seeded C03k: the precedence levels are built by a loop over an ordered table; parallel sits before negation'),
    Mutant('negation-above-power', EXPR, _NEG_OLD, _NEG_NEW, 'D1'),
    Mutant('product-right-operand-tighter', EXPR, _PRODUCT,
           "product = parallel + ZeroOrMore((Literal('*') | Literal('/'))(\"op\") + negation)", 'D1'),
    Mutant('emdash-action-dropped', EXPR, "        emdash.setParseAction(lambda: \"-\")\n", "", 'D1'),
    Mutant('variable-before-function', EXPR, "atom = number | function | variable | parentheses | array",
           "atom = number | variable | function | parentheses | array", 'D1'),
    Mutant('unary-plus-read-as-negation', EXPR, "negation = Optional(minus)(\"op\") + power", "negation = Optional(plus_minus)(\"op\") + power", 'D1'),
    # D2
    Mutant('group-renamed-in-grammar', EXPR, ")(\"number\")", ")(\"numbr\")", 'D2'),
    Mutant('action-key-renamed', EXPR, "'parallel': self.eval_parallel,", "'paralel': self.eval_parallel,", 'D2'),
    Mutant('power-grouped-as-product', EXPR, "power.addParseAction(self.group_if_multiple('power'))",
           "power.addParseAction(self.group_if_multiple('product'))", 'D3'),
    # D3
    Mutant('power-folded-from-the-left', EXPR, "        result = data.pop()\n        while data:\n            # Result contains the current exponent\n            working = data.pop()\n",
           "        result = data.pop(0)\n        while data:\n            # Result contains the current exponent\n            working = data.pop(0)\n", 'D3'),
    Mutant('negation-parity-off-by-one', EXPR, "return num * (-1)**(len(parse_result) - 1)", "return num * (-1)**len(parse_result)", 'D3'),
    Mutant('parallel-zero-shortcut-dropped', EXPR, "        if 0 in parse_result:\n            return 0\n", "", 'D3'),
    # D4
    Mutant('suffix-divides', EXPR, "result = result * suffixes[parse_result[1]]", "result = result / suffixes[parse_result[1]]", 'D4'),
    Mutant('metric-table-generated-in-wrong-order', FUNCS, _TABLE, _LOOP % 'mnup', 'D4',
           note='seeded C03f: the generating loop pairs u with 1e-9 and n with 1e-6'),
    Mutant('parallel-token-any-run-of-pipes', EXPR, "pipes = Literal('|') + Literal('|')", "pipes = Word('|')", 'D1',
           note='seeded C03e: 1|2 and 6|||3 are given the value of the parallel operator instead of a parse error'),
    Mutant('exponent-sign-loses-the-em-dash', EXPR, "Optional(CaselessLiteral(\"E\") + Optional(plus_minus) + number_part)",
           "Optional(CaselessLiteral(\"E\") + Optional(Word(\"+-\", exact=1)) + number_part)", 'D1',
           note='seeded C03i/C10j: the exponent sign rebuilt locally without the em-dash: 2e\u20143 is 2 with suffix e, minus 3'),
    Mutant('eval-node-returns-uncast-result', EXPR, "        return cast_np_numeric_as_builtin(result, map_across_lists=True)", "        return result", 'D2',
           note='seeded C03j: numpy scalars escape from interior nodes'),
    Mutant('exponent-marker-commits-the-parse', EXPR, "Optional(CaselessLiteral(\"E\") + Optional(plus_minus) + number_part)",
           "Optional(CaselessLiteral(\"E\") - Optional(plus_minus) + number_part)", 'D6',
           note='sweep: an error stop after E makes suffixes that start with e/E (1e, 5eV) abort the parse'),
    Mutant('number-literal-memoised-on-the-expression', EXPR,
           "        actions = {\n            'number': lambda parse_result: self.eval_number(parse_result, suffixes),",
           "        if not hasattr(self, 'number_values'):\n            self.number_values = {}\n\n"
           "        def number_value(parse_result):\n            literal = tuple(parse_result)\n"
           "            if literal not in self.number_values:\n"
           "                self.number_values[literal] = self.eval_number(parse_result, suffixes)\n"
           "            return self.number_values[literal]\n\n"
           "        actions = {\n            'number': number_value,", 'D4',
           note='seeded C03c: after evaluating 2k with k=1000 the same (cached) expression gives 2000 for k=1024'),
    # D5
    Mutant('raw-string-parsed', EXPR, "parsed = self.raw_parse(expression_no_whitespace)", "parsed = self.raw_parse(expression)", 'D5'),
    Mutant('cache-key-strips-all-whitespace', EXPR, "cache_key = expression_no_whitespace", "cache_key = ''.join(expression.split())", 'D5',
           note='seeded: key and parsed text use different normal forms -- once 10 is cached, 1<TAB>0 evaluates to 10'),
    Mutant('parsed-text-strips-all-whitespace', EXPR, "parsed = self.raw_parse(expression_no_whitespace)",
           "parsed = self.raw_parse(''.join(expression.split()))", 'D5'),
    Mutant('blank-test-before-strip', EXPR, "    formula = formula.strip()\n    if formula == \"\":", "    if formula == \"\":", 'D5'),
    # D6
    Mutant('stringend-dropped', EXPR, "return expression + stringEnd", "return expression", 'D6'),
    Mutant('operator-made-optional', EXPR, _PRODUCT,
           "product = parallel + ZeroOrMore(Optional(Literal('*') | Literal('/'))(\"op\") + parallel)", 'D6'),
    Mutant('empty-argument-list-accepted', EXPR, "Group(delimitedList(expression))(\"arguments\")",
           "Group(Optional(delimitedList(expression)))(\"arguments\")", 'D6'),
    Mutant('max-array-dim-non-strict', EXPR, "eval_metadata.max_array_dim_used > max_array_dim:", "eval_metadata.max_array_dim_used >= max_array_dim:", 'D6'),
    Mutant('array-depth-not-recorded', EXPR, "        if array.ndim > metadata_dict['max_array_dim_used']:\n            metadata_dict['max_array_dim_used'] = array.ndim\n", "", 'D6'),
    # D7
    Mutant('variable-lookup-folds-case', EXPR, "value = variables[parse_result[0]]", "value = variables[parse_result[0].lower()]", 'D7'),
    Mutant('functions-resolved-among-variables', EXPR, "self.eval_function(parse_result, functions)", "self.eval_function(parse_result, variables)", 'D7'),
]

BENIGN = [
    Benign('levels-from-an-ordered-table', EXPR, [(_LEVELS_OLD, _LEVELS_NEW % (_ROW_NEG + _ROW_PAR)),
                                                  ("expression << sumdiff", "expression << operand")], None),
    Benign('sum-as-for-loop-over-pairs', EXPR, "        while data:\n            op = data.pop(0)\n            num = data.pop(0)\n            if op == '+':",
           "        for op, num in zip(data[0::2], data[1::2]):\n            if op == '+':"),
    Benign('power-as-reversed-loop', EXPR, "        data = parse_result[:]\n        result = data.pop()\n        while data:\n            # Result contains the current exponent\n            working = data.pop()\n",
           "        result = parse_result[-1]\n        for working in reversed(parse_result[:-1]):\n"),
    Benign('operator-choice-extracted', EXPR, _PRODUCT,
           "star_slash = Literal('*') | Literal('/')\n        product = parallel + ZeroOrMore(star_slash(\"op\") + parallel)"),
    Benign('negation-as-conditional', EXPR, "return num * (-1)**(len(parse_result) - 1)", "return -num if len(parse_result) == 2 else num"),
    Benign('parse-string-inlined', EXPR, "parsed = self.raw_parse(expression_no_whitespace)", "parsed = self.raw_parse(expression.replace(' ', ''))"),
    Benign('cache-key-inlined', EXPR, "cache_key = expression_no_whitespace", "cache_key = expression.replace(' ', '')"),
    Benign('atom-alternatives-reordered', EXPR, "atom = number | function | variable | parentheses | array",
           "atom = function | variable | parentheses | number | array"),
    Benign('parallel-zero-test-as-any', EXPR, "        if 0 in parse_result:\n            return 0\n", "        if any(x == 0 for x in parse_result):\n            return 0\n"),
    Benign('quotient-as-reciprocal-product', EXPR, "result = result/value", "result = result*(1/value)"),
    Benign('snake-case-parse-action', EXPR, "suffix.setParseAction(self.suffix_parse_action)", "suffix.set_parse_action(self.suffix_parse_action)"),
    Benign('forward-bound-with-ilshift', EXPR, "expression << sumdiff", "expression <<= sumdiff"),
    Benign('log-statement-in-grammar-builder', EXPR, "        # Close the recursion\n", "        print('building grammar')\n"),
    Benign('cache-lookup-by-keyerror', EXPR, "        if expression_no_whitespace in self.cache:\n            return self.cache[cache_key]\n",
           "        try:\n            return self.cache[cache_key]\n        except KeyError:\n            pass\n"),
    Benign('grammar-signs-by-tuple-assignment', EXPR, "        minus = Literal(\"-\") | emdash\n", "        minus, dash = (Literal(\"-\") | emdash, emdash)\n"),
    Benign('metric-table-generated-by-a-loop', FUNCS, _TABLE, _LOOP % 'munp'),
    Benign('metric-table-as-dict-of-zip', FUNCS, _TABLE,
           "METRIC_SUFFIXES = dict(zip('kMGTmunp', [10.0 ** (3 * e) for e in (1, 2, 3, 4, -1, -2, -3, -4)]))\n"),
    Benign('parallel-token-as-one-literal', EXPR, "pipes = Literal('|') + Literal('|')", "pipes = Literal('||')"),
    Benign('max-array-dim-as-guard-clauses', EXPR,
           "    if max_array_dim is not None and eval_metadata.max_array_dim_used > max_array_dim:\n        if max_array_dim == 0:\n"
           "            msg = \"Vector and matrix expressions have been forbidden in this entry.\"\n        elif max_array_dim == 1:\n"
           "            msg = \"Matrix expressions have been forbidden in this entry.\"\n        else:\n"
           "            msg = \"Tensor expressions have been forbidden in this entry.\"\n        raise UnableToParse(msg)\n",
           "    if max_array_dim is None or not eval_metadata.max_array_dim_used > max_array_dim:\n        return result, eval_metadata\n"
           "    if max_array_dim == 0:\n        raise UnableToParse(\"Vector and matrix expressions have been forbidden in this entry.\")\n"
           "    if max_array_dim == 1:\n        raise UnableToParse(\"Matrix expressions have been forbidden in this entry.\")\n"
           "    raise UnableToParse(\"Tensor expressions have been forbidden in this entry.\")\n"),
    Benign('error-stop-before-a-repetition', EXPR, "power = atom + ZeroOrMore(", "power = atom - ZeroOrMore("),
    Benign('error-stop-inside-the-pipes-token', EXPR, "pipes = Literal('|') + Literal('|')", "pipes = Literal('|') - Literal('|')"),
    Benign('error-stop-after-lower-index-opener', EXPR, "lower_indices = Literal(\"_{\") + Optional(\"-\")", "lower_indices = Literal(\"_{\") - Optional(\"-\")"),
    Benign('cache-store-removed', EXPR, "        self.cache[cache_key] = parsed\n        return parsed", "        return parsed"),
    Benign('actions-bound-with-functools-partial', EXPR, "            'number': lambda parse_result: self.eval_number(parse_result, suffixes),",
           "            'number': __import__('functools').partial(self.eval_number, suffixes=suffixes),"),
    Benign('bad-names-by-set-difference', EXPR, "bad_vars = set(var for var in self.variables_used if var not in variables)",
           "bad_vars = set(self.variables_used).difference(variables)"),
    Benign('evaluator-stripped-temporary', EXPR, "    if formula is None:\n        # No need to go further.\n        return float('nan'), empty_usage\n    formula = formula.strip()\n    if formula == \"\":",
           "    stripped = None if formula is None else formula.strip()\n    formula = stripped\n    if stripped is None or stripped == \"\":"),
    Benign('exponent-sign-rebuilt-from-the-same-pieces', EXPR, "Optional(CaselessLiteral(\"E\") + Optional(plus_minus) + number_part)",
           "Optional(CaselessLiteral(\"E\") + Optional(plus | minus) + number_part)"),
    Benign('eval-node-cast-through-a-local', EXPR, "        return cast_np_numeric_as_builtin(result, map_across_lists=True)",
           "        computed = result\n        result = cast_np_numeric_as_builtin(computed, map_across_lists=True)\n        return result"),
    Benign('evaluator-nan-exits-merged', EXPR, "    if formula is None:\n        # No need to go further.\n        return float('nan'), empty_usage\n    formula = formula.strip()\n    if formula == \"\":",
           "    if formula is not None:\n        formula = formula.strip()\n    if formula is None or formula == \"\":"),
    Benign('product-pairs-from-a-generator', EXPR, "        data = parse_result[1:]\n        while data:\n            op = data.pop(0)\n            value = data.pop(0)\n",
           "        def pairs(items):\n            while items:\n                yield items.pop(0), items.pop(0)\n\n        for op, value in pairs(parse_result[1:]):\n"),
    Benign('negation-by-parity', EXPR, "return num * (-1)**(len(parse_result) - 1)", "return num * (-1 if (len(parse_result) - 1) % 2 else 1)"),
    Benign('evaluator-blank-test-inlined', EXPR, "    formula = formula.strip()\n    if formula == \"\":", "    formula = formula.strip()\n    if not formula:"),
    Benign('check-scope-block-as-loop-over-a-table', EXPR, "        bad_vars = set(var for var in self.variables_used if var not in variables)\n        if bad_vars:",
           "        for used, available in [(self.variables_used, variables)]:\n            bad_vars = set(var for var in used if var not in available)\n        if bad_vars:"),
    Benign('group-if-multiple-through-a-local-alias', EXPR, [
        ("        power.addParseAction(self.group_if_multiple('power'))", "        gim = self.group_if_multiple\n        power.addParseAction(gim('power'))"),
        ("        negation.addParseAction(self.group_if_multiple('negation'))", "        negation.addParseAction(gim('negation'))"),
    ], None),
    Benign('eval-node-result-screened-in-a-helper', EXPR, [
        ("        return cast_np_numeric_as_builtin(result, map_across_lists=True)\n", "        return MathExpression._finish(result, allow_inf)\n"),
        ("    @staticmethod\n    def eval_number(parse_result, suffixes):", "    @staticmethod\n    def _finish(result, allow_inf):\n        if allow_inf and result is None:\n            return float('nan')\n"
         "        return cast_np_numeric_as_builtin(result, map_across_lists=True)\n\n    @staticmethod\n    def eval_number(parse_result, suffixes):"),
    ], None),
    Benign('raw-parse-behind-a-helper', EXPR, [
        ("        try:\n            parsed = self.raw_parse(expression_no_whitespace)\n        except ParseException:\n"
         "            msg = \"Invalid Input: Could not parse '{}' as a formula\"\n            raise UnableToParse(msg.format(expression))\n",
         "        parsed = self._parse_uncached(expression, expression_no_whitespace)\n"),
        ("    def parse(self, expression):", "    def _parse_uncached(self, expression, stripped):\n        try:\n            return self.raw_parse(stripped)\n"
         "        except ParseException:\n            msg = \"Invalid Input: Could not parse '{}' as a formula\"\n            raise UnableToParse(msg.format(expression))\n\n"
         "    def parse(self, expression):"),
    ], None),
    Benign('sum-operations-from-an-ordered-table', EXPR,
           "            if op == '+':\n                result = result + num\n            elif op == '-':\n                result = result - num\n"
           "            else:\n                raise CalcError(\"Unexpected symbol {} in eval_sum\".format(op))",
           "            combine = next((f for sym, f in (('+', lambda a, b: a + b), ('-', lambda a, b: a - b)) if op == sym), None)\n"
           "            if combine is None:\n                raise CalcError(\"Unexpected symbol {} in eval_sum\".format(op))\n"
           "            result = combine(result, num)"),
    Benign('check-scope-rows-from-a-class-table', EXPR, [
        ("        bad_vars = set(var for var in self.variables_used if var not in variables)\n        if bad_vars:",
         "        for attribute, index in self._scope_rows:\n            scope = (variables, functions, suffixes)[index]\n"
         "            bad_vars = set(var for var in getattr(self, attribute) if var not in scope)\n        if bad_vars:"),
        ("    def check_scope(self, variables, functions, suffixes):", "    _scope_rows = (('variables_used', 0),)\n\n    def check_scope(self, variables, functions, suffixes):"),
    ], None),
]
