"""C19 -- SumGrader accepts exactly the sums equal in value to the author's.

Everything is decided from the shape of the code (normal forms, CFG order, handler contracts):
* D1  NF + ENUM: `perform_summation` -- the range term `range(int(lower), int(upper + 1), delta)`, the sum over every
      evaluation, the swap of reversed limits, the replacement of -inf/+inf by -/+ cutoff, SummationError for same-sign
      infinities, and the parity step: the decision paths of the `even_odd` statement are enumerated over the complete
      domain even_odd in {0,1,2} x parity(lower) with `lower` symbolic; CFG order swap < checks < parity < range;
* D2  NF/ORDER/PAIR: `evaluate_sum` -- three kinds of refusals (variable in scope, complex, non-integer finite) raise
      SummationError and dominate the summation; cutoff chosen over the complete Venn domain of {fact, factorial} in
      the used functions; argument roles of the summation call; the summand closure binds the index only through
      varscope[summation_var] and releases it on every normal exit;
* D3  GUARD/ORDER/ROLE: `gen_evaluations` -- author's call guarded by a handler for (a superclass of) MITxError that
      raises ConfigError, student's call unguarded, instructor variables deleted between the two calls and reloaded
      before the next author's call, results stored and returned in (author, student, functions) roles;
* D4  ORDER/NF: `SummationGraderBase.check` and helpers -- count check, blank check (MissingInput), dummy-variable
      validation (InvalidInput) dominate check_math_response, in that order; normal forms of the helper predicates.
Nothing of /repo is imported or executed.
"""
import ast

from ..index import AnalysisError, walk_own, short, unparse, parent
from ..cfg import cfg_of
from .. import nf, lib
from ..selftest import Mutant, Benign
from . import _c13_nfx as X

ID = 'C19'
IG = 'mitxgraders/formulagrader/integralgrader.py'
FILES = [IG]

EXPLANATION = (
    "(D1) perform_summation: the index runs over range(int(lower), int(upper + 1), delta) [NF, the `+ 1` and both int() "
    "casts included], every evaluation is summed (comprehension+sum or accumulating loop without early exit), reversed "
    "limits are swapped, lower == -inf -> -cutoff, upper == +inf -> +cutoff, same-sign infinities raise SummationError, and "
    "over the complete domain even_odd in {0,1,2} x parity x sign class of the (symbolic) lower limit the decision paths give "
    "delta 1/2/2 and a new lower limit whose affine form (abstract evaluation of + - * / // int() over parity/sign classes) "
    "is lower + 1 exactly when the parity is the wrong one and lower otherwise; "
    "a clamp max/min in place of the infinity tests is recognised as truncating finite limits; CFG order: swap before the infinity "
    "checks and the parity step, infinity replacement before the parity step, parity step before the range; "
    "(D2) evaluate_sum: `summation_var in varscope`, complex limits and finite non-integer limits each raise "
    "SummationError on a test that dominates the summation; the cutoff is infty_val_fact exactly on the Venn regions "
    "where fact or factorial is among the used functions; perform_summation receives (closure, limits, "
    "config['even_odd'], cutoff); the closure stores the index into varscope[summation_var], evaluates the summand "
    "with (varscope, funcscope, self.suffixes), returns the value and deletes the index on every normal exit; "
    "(D3) SumGrader.gen_evaluations: the author's evaluate_sum call sits in a try whose handler covers MITxError and "
    "raises ConfigError on every path, the student's call is outside it; every path from the author's call to the "
    "student's call deletes the instructor variables from the scope both calls use, every path from a student's call "
    "to the next author's call reloads the sample; values are appended and returned in (author, student, used "
    "functions) roles; (D4) SummationGraderBase.check: structure_and_validate_input (count check -> ConfigError) < "
    "blank-field loop (MissingInput) < validate_user_dummy_variable (InvalidInput, both tests) < check_math_response "
    "by CFG dominance; normal forms of validate_input_positions and transform_list_to_dict.")
NOT_DECIDED = ("numeric equality of the two sums within tolerance (compare_evaluations, C04); values produced by the "
               "formula evaluator; IntegralGrader's quadrature (scipy absent; only the shared base class is covered); "
               "Python's range/int/% semantics (trusted).")
ASSUMPTIONS = ["the cutoff is integral (the parity of a replaced infinite limit is then the parity of the cutoff)",
               "limits reaching perform_summation are integers or +-inf (checked: single caller evaluate_sum, whose refusals dominate the call)",
               "x % 2 of an integer is 0 or 1 (Python semantics for a positive modulus), so abs() around it is redundant"]

SG = 'mitxgraders.formulagrader.integralgrader.SumGrader'
SB = 'mitxgraders.formulagrader.integralgrader.SummationGraderBase'


def check(ctx):
    _run_all(ctx, ctx.index, [d1_summation, d2_limits, d3_author, d4_order])


def _run_all(ctx, idx, fns):
    """Run the rule functions; an unexpected failure inside the checker is an analysis error, never a crash."""
    for f in fns:
        try:
            f(ctx, idx)
        except AnalysisError:
            raise
        except Exception as e:      # pragma: no cover - defensive
            ctx.rule('ENGINE.%s' % f.__name__, 'the checker could not finish this rule').undecided(
                '<checker>', '%s: %s' % (type(e).__name__, e))


def verdict(r, construct, res, where, ok_detail='', expected=None, why=''):
    """Record MATCH / DIFF / UNRECOGNISED with an explanation of why the difference matters."""
    if res == nf.MATCH:
        r.ok(construct, ok_detail, where)
    elif isinstance(res, tuple):
        r.violation(construct, res[1] + (': ' + why if why else ''), where, expected=expected)
    else:
        r.undecided(construct, 'shape not recognised' + (' (expected %s)' % expected if expected else ''), where)


# ----------------------------------------------------------------------------- infinity literals
def inf_sign(e):
    """+1 / -1 if the expression denotes +inf / -inf, 0 if it is not an infinity; Unrecognised for odd spellings."""
    if isinstance(e, ast.UnaryOp) and isinstance(e.op, ast.USub):
        s = inf_sign(e.operand)
        return -s
    if isinstance(e, ast.UnaryOp) and isinstance(e.op, ast.UAdd):
        return inf_sign(e.operand)
    if isinstance(e, ast.Call) and isinstance(e.func, ast.Name) and e.func.id == 'float' and len(e.args) == 1 \
            and isinstance(e.args[0], ast.Constant) and isinstance(e.args[0].value, str):
        v = e.args[0].value.strip().lower()
        if v in ('inf', '+inf', 'infinity', '+infinity'):
            return 1
        if v in ('-inf', '-infinity'):
            return -1
        return 0
    if isinstance(e, ast.Attribute) and e.attr in ('inf', 'infty', 'Inf', 'Infinity', 'PINF'):
        return 1
    if isinstance(e, ast.Attribute) and e.attr == 'NINF':
        return -1
    if isinstance(e, ast.Name) and e.id.lower() in ('inf', 'infinity'):
        return 1
    return 0


def inf_test(test):
    """(variable name, sign) if the canonical test is `<name> == +-inf`, else None."""
    t = nf.canon(test)
    if isinstance(t, ast.Compare) and len(t.ops) == 1 and isinstance(t.ops[0], ast.Eq):
        a, b = t.left, t.comparators[0]
        for x, y in ((a, b), (b, a)):
            if isinstance(x, ast.Name) and inf_sign(y) != 0:
                return x.id, inf_sign(y)
    return None


# ----------------------------------------------------------------------------- D1
RANGE_PATTERNS = ["range(int(lower), int(upper + 1), _D)", "range(int(lower), int(upper) + 1, _D)"]


def d1_summation(ctx, idx):
    r = ctx.rule('D1.SUM', 'perform_summation: inclusive integer range over the ordered limits, +-inf -> cutoff, parity step, '
                 'every evaluation summed', floor=12)
    with r:
        fi = idx.func(SG + '.perform_summation')
        fn = fi.node
        if not fi.is_static or fi.params[:5] != ['eval_summand', 'lower', 'upper', 'even_odd', 'infty_val']:
            raise AnalysisError('perform_summation: signature changed: %s' % fi.params)
        # ---- O1 the range term
        ranges = [c for c in walk_own(fn) if isinstance(c, ast.Call) and isinstance(c.func, ast.Name) and c.func.id == 'range']
        if len(ranges) != 1:
            raise AnalysisError('perform_summation: expected one range(...) call, found %d' % len(ranges))
        rng = ranges[0]
        binds = {}
        res = nf.classify(RANGE_PATTERNS, rng, binds)
        verdict(r, 'perform_summation: index range', res, lib.loc(fi, rng), 'range(int(lower), int(upper + 1), delta)',
                expected='range(int(lower), int(upper + 1), delta)',
                why='the sum must run over every integer from the lower to the upper limit inclusive')
        delta_name = binds['_D'].id if res == nf.MATCH and isinstance(binds.get('_D'), ast.Name) else None
        if res == nf.MATCH and delta_name is None:
            raise AnalysisError('perform_summation: the step of the range is not a local variable: %s' % short(rng))
        # ---- O2 every evaluation is summed
        _sub(r, _sum_of_all, r, fi, rng)
        # ---- O3 swap
        swap_stmt = _sub(r, _swap, r, fi)
        # ---- O4/O5 infinities
        inf_stmts = _sub(r, _infinities, r, fi)
        # ---- O6 parity
        parity_stmt = _sub(r, _parity, r, fi, delta_name)
        # ---- O7 order
        if swap_stmt is not None and parity_stmt is not None and inf_stmts:
            rng_stmt = lib.enclosing_stmt(rng)
            problems = []
            for key, st in inf_stmts.items():
                if not X.dominates(fi, swap_stmt, st):
                    problems.append('the limits are ordered only after the test `%s`' % short(st.test))
                if key in (('lower', -1), ('upper', 1)) and not X.dominates(fi, st, parity_stmt):
                    problems.append('the parity step runs before `%s` replaces the infinite limit' % short(st.test))
            if not X.dominates(fi, swap_stmt, parity_stmt):
                problems.append('the parity step runs before the limits are ordered (it would adjust the wrong limit)')
            if not X.dominates(fi, parity_stmt, rng_stmt):
                problems.append('the range is built before the parity step')
            for st in inf_stmts.values():
                if not X.dominates(fi, st, rng_stmt):
                    problems.append('the range is built before `%s`' % short(st.test))
            r.check(not problems, 'perform_summation: order of the steps', 'swap < infinity handling < parity step < range',
                    '; '.join(problems[:3]), fi.loc, expected='swap, infinity handling, parity step, range')
        # single caller
        callers = [f for f in idx.package_funcs() if lib.calls_named(f.node, 'perform_summation')]
        r.check([f.qualname for f in callers] == [SG + '.evaluate_sum'], 'perform_summation: callers',
                'called only by SumGrader.evaluate_sum (after the limit checks)',
                'perform_summation is called from %s: limits can reach the summation without the checks of evaluate_sum'
                % [f.qualname for f in callers], fi.loc)


def _sub(r, f, *args):
    """Run one obligation group; an unrecognised shape there does not hide the verdicts of the others."""
    try:
        return f(*args)
    except AnalysisError as e:
        r.undecided('<%s>' % f.__name__.strip('_'), str(e))
        return None


def _sum_of_all(r, fi, rng):
    fn = fi.node
    construct = 'perform_summation: every evaluation in the range is summed'
    rets = [s for s in fn.body if isinstance(s, ast.Return)]
    if len(rets) != 1 or rets[0].value is None or fn.body[-1] is not rets[0]:
        raise AnalysisError('perform_summation: expected the function to end in a single return of the sum')
    value = lib.inline_locals(rets[0].value, fn)
    for p in ("sum([eval_summand(_N) for _N in _RANGE])", "sum(eval_summand(_N) for _N in _RANGE)",
              "sum([eval_summand(_N) for _N in _RANGE], 0)"):
        b = X.m(p, value)
        if b is not None and isinstance(b['_RANGE'], ast.Call) and nf.callee_name(b['_RANGE']) == 'range':
            r.ok(construct, 'sum of eval_summand(n) for n in the range, no filter', lib.loc(fi, rets[0]))
            return
    # a comprehension with a filter, or a slice of the evaluations, is a recognised way of dropping terms
    comp = [n for n in walk_own(fn) if isinstance(n, (ast.ListComp, ast.GeneratorExp)) and any(x is rng for x in ast.walk(n))]
    if comp and any(g.ifs for g in comp[0].generators):
        r.violation(construct, 'the comprehension over the range filters terms (`%s`)' % short(comp[0]), lib.loc(fi, comp[0]))
        return
    loop = X.enclosing_loop(rng) if not comp else None
    loops = [n for n in walk_own(fn) if isinstance(n, ast.For) and n.iter is rng]
    if loops:
        lp = loops[0]
        if not isinstance(lp.target, ast.Name):
            raise AnalysisError('loop target')
        acc = [s for s in lp.body if not (isinstance(s, ast.Expr)) and not _is_probe(s)]
        if len(acc) == 1:
            b = X.any_match([X.spat("_R = _R + eval_summand(%s)" % lp.target.id), X.spat("_R = eval_summand(%s) + _R" % lp.target.id)], acc[0])
            if b is not None and isinstance(b['_R'], ast.Name) and X.is_name(rets[0].value, b['_R'].id):
                exits = lib.loop_has_early_exit(lp)
                r.check(not exits and not lp.orelse, construct, 'accumulating loop without early exit',
                        'the accumulating loop can stop early (`%s`): later terms are not summed' % (short(exits[0]) if exits else 'else'),
                        lib.loc(fi, lp))
                return
    r.undecided(construct, 'the returned value `%s` is not recognised as the sum of all evaluations' % short(value), lib.loc(fi, rets[0]))


def _is_probe(s):
    return isinstance(s, ast.Assign) and len(s.targets) == 1 and isinstance(s.targets[0], ast.Name) and isinstance(s.value, ast.Constant)


def _swap(r, fi):
    fn = fi.node
    construct = 'perform_summation: reversed limits are swapped'
    SWAPS = [X.spat("lower, upper = upper, lower"), X.spat("upper, lower = lower, upper")]
    for st in walk_own(fn):
        if isinstance(st, ast.Assign) and X.any_match([X.spat("lower, upper = min(lower, upper), max(lower, upper)"),
                                                       X.spat("lower, upper = min(upper, lower), max(upper, lower)")], st) is not None:
            r.ok(construct, 'lower, upper = min(...), max(...)', lib.loc(fi, st))
            return st
    cands = [s for s in walk_own(fn) if isinstance(s, ast.If) and {'lower', 'upper'} <= X.names_loaded(s.test)
             and not any(inf_sign(x) for x in ast.walk(s.test))]
    for st in cands:
        body = [s for s in st.body if not isinstance(s, ast.Expr) and not _is_probe(s)]
        if len(body) == 1 and X.any_match(SWAPS, body[0]) is not None and not st.orelse:
            res = nf.classify(["upper < lower", "upper <= lower"], st.test)
            verdict(r, construct, res, lib.loc(fi, st), 'if lower > upper: swap', expected='if lower > upper: lower, upper = upper, lower',
                    why='the swap must happen exactly when the limits are reversed, otherwise ordered limits are reversed into an empty range')
            return st
    if cands:
        r.undecided(construct, 'a comparison of the limits exists but is not a recognised swap: %s' % short(cands[0].test), lib.loc(fi, cands[0]))
        return None
    r.violation(construct, 'the limits are never compared or reordered: with the lower limit above the upper one '
                '`range(int(lower), int(upper + 1))` is empty and the sum is 0', fi.loc,
                expected='if lower > upper: lower, upper = upper, lower')
    return None


def _infinities(r, fi):
    fn = fi.node
    found = {}
    for st in walk_own(fn):
        if isinstance(st, ast.If):
            t = inf_test(st.test)
            if t is not None and t[0] in ('lower', 'upper'):
                if t in found:
                    raise AnalysisError('two tests of %s against %sinf' % (t[0], '-' if t[1] < 0 else '+'))
                found[t] = st
    spec = [(('lower', -1), 'assign', "lower = -infty_val", 'perform_summation: lower == -inf is replaced by -cutoff',
             'sums from -infty would start at +cutoff / not be replaced'),
            (('upper', 1), 'assign', "upper = infty_val", 'perform_summation: upper == +inf is replaced by +cutoff',
             'sums to +infty would end at -cutoff / not be replaced'),
            (('upper', -1), 'raise', None, 'perform_summation: a sum from -inf to -inf raises SummationError', ''),
            (('lower', 1), 'raise', None, 'perform_summation: a sum from +inf to +inf raises SummationError', '')]
    for key, kind, pattern, construct, why in spec:
        st = found.get(key)
        if st is None:
            var = key[0]
            if kind == 'assign':
                others = [a for a in walk_own(fn) if isinstance(a, ast.Assign) and len(a.targets) == 1 and X.is_name(a.targets[0], var)
                          and X.mentions(a.value, 'infty_val')]
                clamp = [a for a in others if X.any_match(["max(%s, -infty_val)" % var, "max(-infty_val, %s)" % var, "min(%s, infty_val)" % var,
                                                           "min(infty_val, %s)" % var], a.value) is not None]
                if clamp:
                    r.violation(construct, '`%s` clamps the limit instead of replacing only an infinite one: every finite limit beyond the cutoff is '
                                'truncated too, so e.g. with infty_val=10 the sums to 10, 11 and 12 are all graded as the same sum'
                                % short(clamp[0]), lib.loc(fi, clamp[0]), expected="if %s == %sfloat('inf'): %s" % (var, '-' if key[1] < 0 else '', pattern))
                    continue
                if others:
                    r.undecided(construct, 'replacement by the cutoff not recognised: %s' % short(others[0]), lib.loc(fi, others[0]))
                    continue
            r.violation(construct, 'no test of `%s == %sfloat(\'inf\')` exists: %s' % (
                key[0], '-' if key[1] < 0 else '', 'int() of the infinite limit raises OverflowError' if kind == 'assign'
                else 'the range over two equal infinite limits fails with OverflowError instead of a student-facing error'),
                fi.loc, expected=pattern or 'raise SummationError')
            continue
        body = [s for s in st.body if not isinstance(s, ast.Expr) and not _is_probe(s)]
        where = lib.loc(fi, st)
        if st.orelse:
            raise AnalysisError('else branch on `%s`' % short(st.test))
        if kind == 'assign':
            if len(body) != 1 or not isinstance(body[0], ast.Assign):
                r.violation(construct, 'the branch does not replace the limit: `%s`' % short(body[0] if body else st), where, expected=pattern)
                continue
            verdict(r, construct, nf.classify(X.spat(pattern), body[0]), where, pattern, expected=pattern, why=why)
        else:
            ok, classes = X.body_raises(st.body)
            if not ok and not classes:
                r.violation(construct, 'the branch `%s` does not raise: two equal infinite limits yield a value' % short(st.test), where,
                            expected='raise SummationError')
            else:
                r.check(ok and classes == {'SummationError'}, construct, 'raises SummationError',
                        'the branch raises %s instead of SummationError' % sorted(classes), where, expected='SummationError')
    return found


def _affine_text(form):
    a, b = form
    if a == 1:
        return 'lower' if b == 0 else 'lower %s %s' % ('+' if b > 0 else '-', abs(b))
    return '%s*lower %s %s' % (a, '+' if b >= 0 else '-', abs(b))


def affine(e, odd, neg):
    """Abstract value of an integer expression over `lower`, for all integers `lower` of the given parity and sign
    class, as (a, b) meaning a*lower + b (Fractions); None if the expression leaves the analysable fragment
    (+, -, * and / by constants, // 2, int() of integers and half-integers of known sign)."""
    from fractions import Fraction as Fr
    p = 1 if odd else 0
    first = (-1 if odd else -2) if neg else p          # the member of the class closest to zero

    def ev(x):
        if isinstance(x, ast.Name):
            return (Fr(1), Fr(0)) if x.id == 'lower' else None
        if isinstance(x, ast.Constant) and isinstance(x.value, (int, float)) and not isinstance(x.value, bool) and x.value == int(x.value):
            return (Fr(0), Fr(int(x.value)))
        if isinstance(x, ast.UnaryOp) and isinstance(x.op, ast.USub):
            v = ev(x.operand)
            return None if v is None else (-v[0], -v[1])
        if isinstance(x, ast.BinOp):
            l, r_ = ev(x.left), ev(x.right)
            if l is None or r_ is None:
                return None
            if isinstance(x.op, ast.Add):
                return (l[0] + r_[0], l[1] + r_[1])
            if isinstance(x.op, ast.Sub):
                return (l[0] - r_[0], l[1] - r_[1])
            if isinstance(x.op, ast.Mult):
                if l[0] == 0:
                    return (r_[0] * l[1], r_[1] * l[1])
                if r_[0] == 0:
                    return (l[0] * r_[1], l[1] * r_[1])
                return None
            if isinstance(x.op, ast.Div) and r_[0] == 0 and r_[1] != 0:
                return (l[0] / r_[1], l[1] / r_[1])
            if isinstance(x.op, ast.FloorDiv) and r_[0] == 0 and r_[1] > 0:
                return rounding((l[0] / r_[1], l[1] / r_[1]), floor=True)
            if isinstance(x.op, ast.Mod) and r_ == (Fr(0), Fr(2)) and l == (Fr(1), Fr(0)):
                return (Fr(0), Fr(p))
            return None
        if isinstance(x, ast.Call) and isinstance(x.func, ast.Name) and x.func.id == 'int' and len(x.args) == 1 and not x.keywords:
            v = ev(x.args[0])
            return None if v is None else rounding(v, floor=False)
        if isinstance(x, ast.Call) and isinstance(x.func, ast.Name) and x.func.id == 'abs' and len(x.args) == 1:
            v = ev(x.args[0])
            if v is not None and v[0] == 0:
                return (Fr(0), abs(v[1]))
            return None
        return None

    def rounding(v, floor):
        a, b = v
        # value = a*lower + b = N/2 with N = 2a*lower + 2b (only halves are handled)
        A, B = 2 * a, 2 * b
        if A.denominator != 1 or B.denominator != 1:
            return None
        A, B = int(A), int(B)
        if (A * p + B) % 2 == 0:
            return v                      # always an integer
        if floor:
            return (a, b - Fr(1, 2))
        # truncation toward zero of a half-integer: need its sign over the whole class
        n0 = A * first + B               # numerator at the member closest to zero
        if not neg:
            if A >= 0 and n0 > 0:
                return (a, b - Fr(1, 2))
            if A <= 0 and n0 < 0:
                return (a, b + Fr(1, 2))
        else:
            if A >= 0 and n0 < 0:
                return (a, b + Fr(1, 2))
            if A <= 0 and n0 > 0:
                return (a, b - Fr(1, 2))
        return None
    out = ev(e)
    if out is None:
        return None
    a, b = out
    if a.denominator != 1 or b.denominator != 1:
        return None
    return (int(a), int(b))


def _parity(r, fi, delta_name):
    fn = fi.node
    tops = [s for s in walk_own(fn) if isinstance(s, ast.If) and X.mentions(s.test, 'even_odd')
            and not any(isinstance(a, ast.If) and X.mentions(a.test, 'even_odd') and s in a.orelse for a in walk_own(fn))]
    if len(tops) != 1:
        raise AnalysisError('perform_summation: expected one if-chain on even_odd, found %d' % len(tops))
    top = tops[0]
    if delta_name is None:
        return top
    paths = nf.decision_paths([top], keep_locals=())

    def atom(e):
        if isinstance(e, ast.Compare) and len(e.ops) == 1 and isinstance(e.ops[0], (ast.Eq, ast.NotEq)):
            a, b = e.left, e.comparators[0]
            for x, y in ((a, b), (b, a)):
                if X.is_name(x, 'even_odd') and isinstance(y, ast.Constant) and isinstance(y.value, int):
                    eq = isinstance(e.ops[0], ast.Eq)
                    return lambda w, v=y.value, eq=eq: (w['even_odd'] == v) == eq
        return None

    def term(e):
        if isinstance(e, ast.Constant) and isinstance(e.value, int) and not isinstance(e.value, bool):
            return lambda w, v=e.value: v
        if X.m("lower % 2", e) is not None or X.m("abs(lower % 2)", e) is not None:
            return lambda w: 1 if w['odd'] else 0
        if X.is_name(e, 'even_odd'):
            return lambda w: w['even_odd']
        return None
    guards = X.Guards(atom, term)
    names = {0: 'perform_summation: even_odd=0 sums every integer (step 1, lower limit unchanged)',
             1: 'perform_summation: even_odd=1 steps by 2 from the first odd integer',
             2: 'perform_summation: even_odd=2 steps by 2 from the first even integer'}
    for k in (0, 1, 2):
        bad = None
        for odd in (False, True):
            w = {'even_odd': k, 'odd': odd}
            sel = X.select_paths(paths, guards, w)
            if len(sel) != 1:
                raise AnalysisError('parity decision paths are not exclusive')
            leaf = sel[0].leaf
            if leaf.kind != 'fall':
                bad = ('the branch %s' % ('returns' if leaf.kind == 'ret' else 'raises'), 'falls through to the range')
                break
            env = leaf.env
            d = env.get(delta_name)
            want_delta = 1 if k == 0 else 2
            got_delta = d.value if isinstance(d, ast.Constant) else (short(d) if d is not None else 'unset')
            lo = env.get('lower')
            advance = (k == 1 and not odd) or (k == 2 and odd)
            want_off = 1 if advance else 0
            got_lower = None
            for neg in (False, True):
                form = (1, 0) if lo is None else affine(lo, odd, neg)
                if form is None:
                    raise AnalysisError('new lower limit `%s` is not analysable for %s %s limits' % (
                        short(lo), 'negative' if neg else 'non-negative', 'odd' if odd else 'even'))
                if form != (1, want_off):
                    got_lower = ('%s' % _affine_text(form), 'negative' if neg else 'non-negative')
                    break
            if got_delta != want_delta or got_lower is not None:
                cls = '%s%s' % ((got_lower[1] + ' ') if got_lower else '', 'odd' if odd else 'even')
                bad = ('for a%s %s lower limit: step %s starting at %s%s' % ('n' if cls[0] in 'aeiou' else '', cls, got_delta,
                                                                             got_lower[0] if got_lower else _affine_text((1, want_off)),
                                                                             (' (`%s`)' % short(lo)) if lo is not None and got_lower else ''),
                       'step %s starting at %s' % (want_delta, _affine_text((1, want_off))))
                break
        if bad:
            r.violation(names[k], 'with even_odd=%d the code gives %s, the property needs %s' % (k, bad[0], bad[1]),
                        lib.loc(fi, top), expected=bad[1], found=bad[0])
        else:
            r.ok(names[k], 'both parities of the lower limit', lib.loc(fi, top))
    return top


# ----------------------------------------------------------------------------- D2
def d2_limits(ctx, idx):
    r = ctx.rule('D2.LIMITS', 'evaluate_sum: refusals (variable in scope, complex, non-integer) raise SummationError before the '
                 'summation; cutoff by factorial use; summand closure binds and releases the index', floor=21)
    with r:
        fi = idx.func(SG + '.evaluate_sum')
        fn = fi.node
        if fi.params[:7] != ['self', 'summand_str', 'lower_str', 'upper_str', 'summation_var', 'varscope', 'funcscope']:
            raise AnalysisError('evaluate_sum: signature changed: %s' % fi.params)
        glf = X.find_stmts(fn, "_L, _U, _F = self.get_limits_and_funcs(summand_str, lower_str, upper_str, varscope, funcscope)")
        if len(glf) != 1:
            raise AnalysisError('evaluate_sum: the call of get_limits_and_funcs(summand_str, lower_str, upper_str, varscope, funcscope) '
                                'with its three results was not found')
        st_glf, b = glf[0]
        if not all(isinstance(b[k], ast.Name) for k in ('_L', '_U', '_F')):
            raise AnalysisError('evaluate_sum: results of get_limits_and_funcs are not bound to plain names')
        L, U, F = b['_L'].id, b['_U'].id, b['_F'].id
        ps_calls = lib.calls_named(fn, 'perform_summation')
        if len(ps_calls) != 1:
            raise AnalysisError('evaluate_sum: expected one call of perform_summation')
        ps = ps_calls[0]
        ifs = [s for s in walk_own(fn) if isinstance(s, ast.If)]

        def refusal(construct, st, why_missing):
            """The If statement must raise SummationError on every path of its body and dominate the summation."""
            ok, classes = X.body_raises(st.body)
            where = lib.loc(fi, st)
            if not ok and not classes:
                r.violation(construct, 'the branch `%s` does not raise' % short(st.test), where, expected='raise SummationError')
                return
            r.check(ok and classes == {'SummationError'}, construct + ' [class]', 'raises SummationError',
                    'the refusal raises %s instead of the student-facing SummationError' % sorted(classes), where,
                    expected='SummationError', found=', '.join(sorted(classes)))
            r.check(X.dominates(fi, st, ps), construct + ' [before the summation]', 'dominates perform_summation',
                    'the summation can run before/without this check', where)

        # (a) summation variable in scope
        construct = 'evaluate_sum: a summation variable already in scope is refused'
        cands = [s for s in ifs if {'summation_var', 'varscope'} <= X.names_loaded(s.test)]
        if not cands:
            r.violation(construct, 'no test of `summation_var in varscope` exists: a variable with a meaning (a sampled variable, i, j) is '
                        'silently overwritten and then deleted by the summand closure', fi.loc, expected='if summation_var in varscope: raise SummationError')
        else:
            st = cands[0]
            res = nf.classify("summation_var in varscope", st.test)
            verdict(r, construct, res, lib.loc(fi, st), 'summation_var in varscope', expected='summation_var in varscope',
                    why='the refusal must fire exactly when the name is taken')
            refusal(construct, st, '')
        # (b) complex limits
        construct = 'evaluate_sum: complex limits are refused'
        cands = [s for s in ifs if any(isinstance(c, ast.Call) and nf.callee_name(c) == 'isinstance' and len(c.args) == 2
                                       and X.is_name(c.args[1], 'complex') for c in ast.walk(s.test))]
        if not cands:
            r.violation(construct, 'no isinstance(..., complex) test exists: complex limits reach int() and fail with TypeError', fi.loc,
                        expected='isinstance(lower, complex) or isinstance(upper, complex)')
        else:
            st = cands[0]
            res = nf.classify("isinstance(%s, complex) or isinstance(%s, complex)" % (L, U), st.test)
            verdict(r, construct, res, lib.loc(fi, st), 'both limits tested', expected='isinstance(lower, complex) or isinstance(upper, complex)',
                    why='a complex value of the untested limit reaches int() and fails with TypeError instead of SummationError')
            refusal(construct, st, '')
        # (c) integer limits
        for V, label in ((L, 'lower'), (U, 'upper')):
            construct = 'evaluate_sum: a finite non-integer %s limit is refused' % label
            cands = [s for s in ifs if X.mentions(s.test, V) and _mentions_integrality(s.test, V)]
            if not cands:
                r.violation(construct, 'no integrality test of the %s limit exists: int() truncates it silently and a different sum is graded'
                            % label, fi.loc, expected="abs(%s) != float('inf') and int(%s) != %s" % (label, label, label))
                continue
            st = cands[0]
            pats = ["abs(%s) != float('inf') and int(%s) != %s" % (V, V, V), "abs(%s) != float('inf') and %s %% 1 != 0" % (V, V),
                    "abs(%s) != float('inf') and not float(%s).is_integer()" % (V, V),
                    "%s != float('inf') and %s != -float('inf') and int(%s) != %s" % (V, V, V, V)]
            res = nf.classify(pats, st.test)
            verdict(r, construct, res, lib.loc(fi, st), short(st.test), expected=pats[0].replace(V, label),
                    why='infinite limits must pass this test (int(inf) raises OverflowError) and every finite non-integer must fail it')
            refusal(construct, st, '')
        # (d) cutoff
        _cutoff(r, fi, ps, F)
        # (e) the call of perform_summation
        construct = 'evaluate_sum: perform_summation receives (closure, limits, even_odd, cutoff)'
        a = list(ps.args)
        eo = lib.get_kw(ps, 'even_odd', 3)
        closure_name = a[0].id if a and isinstance(a[0], ast.Name) else None
        if len(a) < 3 or closure_name is None or not (isinstance(a[1], ast.Name) and isinstance(a[2], ast.Name)):
            r.undecided(construct, 'call not recognised: %s' % short(ps), lib.loc(fi, ps))
        else:
            probs = []
            if {a[1].id, a[2].id} != {L, U}:
                probs.append('the limits passed are `%s`, `%s`, not the evaluated limits %s, %s' % (a[1].id, a[2].id, L, U))
            if eo is None:
                probs.append("even_odd is not passed: every sum runs over all integers whatever config['even_odd'] says")
            elif not lib.is_config(eo, 'even_odd'):
                if isinstance(eo, ast.Constant) or nf.config_key(eo) is not None:
                    probs.append("even_odd is `%s` instead of config['even_odd']: the configured parity is ignored" % short(eo))
                else:
                    raise AnalysisError('even_odd argument not recognised: %s' % short(eo))
            r.check(not probs, construct, short(ps, 90), '; '.join(probs), lib.loc(fi, ps),
                    expected="self.perform_summation(eval_summand, lower, upper, self.config['even_odd'], infty_val)")
        # (f) the closure
        if closure_name:
            _closure(r, idx, fi, closure_name)
        # (g) result
        rets = lib.returns_of(fn)
        construct = 'evaluate_sum: returns (sum, used functions)'
        okr = len(rets) == 1 and rets[0].value is not None
        if okr:
            val = lib.inline_locals(rets[0].value, fn)
            okr = isinstance(val, ast.Tuple) and len(val.elts) == 2 and val.elts[0] is not None and \
                isinstance(val.elts[0], ast.Call) and nf.callee_name(val.elts[0]) == 'perform_summation' and X.is_name(val.elts[1], F)
        if okr:
            r.ok(construct, '', lib.loc(fi, rets[0]))
        else:
            r.undecided(construct, 'return value not recognised', fi.loc)
        se = idx.cls('mitxgraders.formulagrader.integralgrader.SummationError')
        r.check('mitxgraders.exceptions.StudentFacingError' in se.mro, 'SummationError', 'a StudentFacingError',
                'SummationError no longer descends from StudentFacingError: limit errors are not shown to the student', se.loc)


def _split_ifexp(assign):
    """`x = a if c else b`  ->  `if c: x = a  else: x = b` (so that the decision paths split on c)."""
    v = assign.value
    if isinstance(v, ast.IfExp):
        return ast.If(test=v.test, body=[_split_ifexp(ast.Assign(targets=assign.targets, value=v.body))],
                      orelse=[_split_ifexp(ast.Assign(targets=assign.targets, value=v.orelse))])
    return assign


def _mentions_integrality(test, V):
    for n in ast.walk(test):
        if isinstance(n, ast.Call) and isinstance(n.func, ast.Name) and n.func.id == 'int' and n.args and X.is_name(n.args[0], V):
            return True
        if isinstance(n, ast.BinOp) and isinstance(n.op, ast.Mod) and X.is_name(n.left, V):
            return True
        if isinstance(n, ast.Attribute) and n.attr == 'is_integer':
            return True
    return False


def _cutoff(r, fi, ps, F):
    fn = fi.node
    construct = 'evaluate_sum: factorial cutoff exactly when fact or factorial is used'
    # the cutoff argument
    arg = lib.get_kw(ps, 'infty_val', 4)
    if arg is None:
        r.violation(construct, 'perform_summation is called without a cutoff: the default 1e3 is used whatever the configuration says',
                    lib.loc(fi, ps))
        return
    if isinstance(arg, ast.Name):
        stmts = [s for s in walk_own(fn) if isinstance(s, ast.If) and arg.id in X.assigned_names(s)
                 and not any(isinstance(a, ast.If) and a is not s and X.in_subtree(s, a) for a in walk_own(fn))]
        plain = [s for s in walk_own(fn) if isinstance(s, ast.Assign) and arg.id in X.assigned_names(s)
                 and not any(X.in_subtree(s, i) for i in stmts)]
        if len(stmts) == 1 and not plain:
            paths = nf.decision_paths([stmts[0]])
            value = lambda p: p.leaf.env.get(arg.id) if p.leaf.kind == 'fall' else None
        elif not stmts and len(plain) == 1:
            paths = nf.decision_paths([_split_ifexp(plain[0])])
            value = lambda p: p.leaf.env.get(arg.id)
        else:
            raise AnalysisError('evaluate_sum: assignments of the cutoff `%s` not recognised' % arg.id)
    else:
        paths = nf.decision_paths([_split_ifexp(ast.Assign(targets=[ast.Name(id='$cutoff', ctx=ast.Store())], value=arg))])
        value = lambda p: p.leaf.env.get('$cutoff')

    def member(e):
        """'fact'/'factorial' if e is `'<name>' in F`."""
        if isinstance(e, ast.Compare) and len(e.ops) == 1 and isinstance(e.ops[0], (ast.In, ast.NotIn)) \
                and isinstance(e.left, ast.Constant) and isinstance(e.left.value, str) and X.is_name(e.comparators[0], F):
            return e.left.value, isinstance(e.ops[0], ast.In)
        return None

    def set_literal(e):
        if isinstance(e, (ast.Set, ast.List, ast.Tuple)) and all(isinstance(x, ast.Constant) for x in e.elts):
            return {x.value for x in e.elts}
        if isinstance(e, ast.Call) and isinstance(e.func, ast.Name) and e.func.id in ('set', 'frozenset') and len(e.args) == 1:
            return set_literal(e.args[0])
        return None

    def atom(e):
        mb = member(e)
        if mb is not None:
            name, pos = mb
            return lambda w, name=name, pos=pos: (name in w['used']) == pos
        # F & {...} / {...} & F / F.intersection({...}) / not F.isdisjoint({...})
        if isinstance(e, ast.BinOp) and isinstance(e.op, ast.BitAnd):
            for x, y in ((e.left, e.right), (e.right, e.left)):
                if X.is_name(x, F) and set_literal(y) is not None:
                    lit = set_literal(y)
                    return lambda w, lit=lit: bool(w['used'] & lit)
        if isinstance(e, ast.Call) and isinstance(e.func, ast.Attribute) and X.is_name(e.func.value, F) and len(e.args) == 1 \
                and set_literal(e.args[0]) is not None:
            lit = set_literal(e.args[0])
            if e.func.attr == 'intersection':
                return lambda w, lit=lit: bool(w['used'] & lit)
            if e.func.attr == 'isdisjoint':
                return lambda w, lit=lit: not (w['used'] & lit)
        return None
    guards = X.Guards(atom)
    bad = None
    # Venn regions of the used-function set with respect to {fact, factorial} (+ an unrelated name)
    for used in (frozenset(), frozenset(['other']), frozenset(['fact']), frozenset(['factorial']), frozenset(['fact', 'factorial']),
                 frozenset(['fact', 'other']), frozenset(['factorial', 'other'])):
        sel = X.select_paths(paths, guards, {'used': used})
        if len(sel) != 1:
            raise AnalysisError('cutoff decision paths are not exclusive')
        v = value(sel[0])
        key = nf.config_key(v) if v is not None else None
        want = 'infty_val_fact' if (used & {'fact', 'factorial'}) else 'infty_val'
        if key != want:
            bad = (sorted(used), key or (short(v) if v is not None else 'unset'), want)
            break
    if bad:
        r.violation(construct, "when the used functions are %s the cutoff is config[%r], the property needs config[%r]: %s"
                    % (bad[0], bad[1], bad[2], 'factorials overflow long before the plain cutoff' if bad[2] == 'infty_val_fact'
                       else 'sums without factorials are truncated at the small factorial cutoff'), lib.loc(fi, ps),
                    expected="config['%s']" % bad[2], found=str(bad[1]))
    else:
        r.ok(construct, '7 Venn regions of the used-function set', lib.loc(fi, ps))


def _closure(r, idx, fi, name):
    q = fi.qualname + '.<locals>.' + name
    if not idx.has_func(q):
        raise AnalysisError('evaluate_sum: summand closure %s not found' % name)
    cl = idx.func(q)
    fn = cl.node
    if len(cl.params) != 1:
        raise AnalysisError('summand closure takes %d parameters' % len(cl.params))
    x = cl.params[0]
    where = cl.loc
    stores = X.find_stmts(fn, "varscope[summation_var] = %s" % x)
    construct = 'evaluate_sum: the summand sees the index through varscope[summation_var]'
    if not stores:
        others = [s for s in walk_own(fn) if isinstance(s, ast.Assign) and any(isinstance(t, ast.Subscript) and X.is_name(t.value, 'varscope') for t in s.targets)]
        if others:
            verdict(r, construct, nf.classify(X.spat("varscope[summation_var] = %s" % x), others[0]), lib.loc(cl, others[0]),
                    expected='varscope[summation_var] = index')
        else:
            r.violation(construct, 'the closure never stores the index into varscope[summation_var]: every term is evaluated without (or with a '
                        'stale) summation variable', where)
        return
    r.ok(construct, 'varscope[summation_var] = %s' % x, lib.loc(cl, stores[0][0]))
    ev = [c for c in walk_own(fn) if isinstance(c, ast.Call) and nf.callee_name(c) == 'evaluator']
    construct = 'evaluate_sum: the summand is evaluated with (varscope, funcscope, self.suffixes)'
    if len(ev) != 1:
        raise AnalysisError('summand closure: expected one evaluator call')
    eparams = idx.func('mitxgraders.helpers.calc.expressions.evaluator').params
    bound = dict(zip(eparams, ev[0].args))
    for k in ev[0].keywords:
        if k.arg is None:
            raise AnalysisError('evaluator called with **kwargs')
        bound[k.arg] = k.value
    want = {'formula': 'summand_str', 'variables': 'varscope', 'functions': 'funcscope', 'suffixes': 'self.suffixes'}
    probs = []
    for role, src in want.items():
        got = bound.get(role)
        if got is None:
            probs.append('%s is not passed (the default scope is used)' % role)
        elif X.m(src, got) is None:
            if any(X.m(o, got) is not None for o in want.values()) or isinstance(got, (ast.Dict, ast.Constant)):
                probs.append('%s=%s instead of %s' % (role, short(got), src))
            else:
                raise AnalysisError('evaluator argument %s=%s not recognised' % (role, short(got)))
    extra = set(bound) - set(want)
    if extra:
        raise AnalysisError('evaluator called with extra arguments %s' % sorted(extra))
    r.check(not probs, construct, 'formula / variables / functions / suffixes in their roles', '; '.join(probs) +
            ': the summand is evaluated in a different scope than the rest of the problem', lib.loc(cl, ev[0]),
            expected='evaluator(summand_str, variables=varscope, functions=funcscope, suffixes=self.suffixes)')
    r.check(X.dominates(cl, stores[0][0], ev[0]), 'evaluate_sum: the index is stored before the summand is evaluated', 'store dominates evaluator',
            'the summand can be evaluated before the index is stored', lib.loc(cl, ev[0]))
    # value returned = first element of the evaluator's result
    construct = 'evaluate_sum: the closure returns the value of the summand'
    rets = lib.returns_of(fn)
    un = X.find_stmts(fn, "_V, _W = evaluator(*__)")
    if len(rets) == 1 and un and isinstance(un[0][1]['_V'], ast.Name):
        vname, wname = un[0][1]['_V'].id, un[0][1]['_W'].id if isinstance(un[0][1]['_W'], ast.Name) else None
        if X.is_name(rets[0].value, vname):
            r.ok(construct, 'first element of evaluator(...)', lib.loc(cl, rets[0]))
        elif wname and X.is_name(rets[0].value, wname):
            r.violation(construct, 'the closure returns the usage record (second element of evaluator(...)) instead of the value', lib.loc(cl, rets[0]))
        else:
            r.undecided(construct, 'returned value not recognised', lib.loc(cl, rets[0]))
    elif len(rets) == 1 and X.m("evaluator(*__)[0]", rets[0].value) is not None:
        r.ok(construct, 'evaluator(...)[0]', lib.loc(cl, rets[0]))
    else:
        r.undecided(construct, 'return not recognised', where)
    # PAIR: the index is removed again on every normal exit
    construct = 'evaluate_sum: the index is removed from the scope after every term'
    dels = [s for s, _ in X.find_stmts(fn, "del varscope[summation_var]")] + \
           [s for s, _ in X.find_stmts(fn, "varscope.pop(summation_var)")] + [s for s, _ in X.find_stmts(fn, "varscope.pop(summation_var, None)")]
    cfg = cfg_of(fn)
    if not dels:
        r.violation(construct, "varscope[summation_var] is never deleted: the author's index stays in the scope, so the student's sum with the "
                    "same variable name is refused as 'conflicts with another previously-defined variable'", where,
                    expected='del varscope[summation_var]')
    else:
        starts = cfg.nodes_of(stores[0][0])
        through = [n for d in dels for n in cfg.nodes_of(d)]
        r.check(cfg.must_pass(starts, through, exits='return'), construct, 'every path from the store to a return passes the deletion',
                'a path returns from the closure with the index still in varscope', lib.loc(cl, dels[0]))


# ----------------------------------------------------------------------------- D3
CALL_PATS = ["self.evaluate_sum(_W['summand'], _W['lower'], _W['upper'], _W['summation_variable'], varscope=_VS, funcscope=_FS)",
             "self.evaluate_sum(_W['summand'], _W['upper'], _W['lower'], _W['summation_variable'], varscope=_VS, funcscope=_FS)",
             "self.evaluate_sum(_W['summand'], _W['lower'], _W['upper'], _W['summation_variable'], _VS, _FS)"]


def d3_author(ctx, idx):
    r = ctx.rule('D3.AUTHOR', "gen_evaluations: author's sum guarded (MITxError -> ConfigError), student's not; instructor variables "
                 "deleted in between and reloaded per sample; results in (author, student, functions) roles", floor=7)
    with r:
        fi = idx.func(SG + '.gen_evaluations')
        fn = fi.node
        if fi.params[:5] != ['self', 'answer', 'student_input', 'var_samples', 'func_samples']:
            raise AnalysisError('gen_evaluations: signature changed: %s' % fi.params)
        calls = lib.calls_named(fn, 'evaluate_sum')
        roles = {}
        for c in calls:
            b = X.any_match(CALL_PATS, c)
            if b is None:
                res = nf.classify(CALL_PATS[0], c)
                if isinstance(res, tuple):
                    r.violation('gen_evaluations: argument roles of evaluate_sum', res[1], lib.loc(fi, c), expected=CALL_PATS[0])
                else:
                    r.undecided('gen_evaluations: argument roles of evaluate_sum', 'call not recognised: %s' % short(c), lib.loc(fi, c))
                continue
            who = 'author' if X.is_name(b['_W'], 'answer') else ('student' if X.is_name(b['_W'], 'student_input') else None)
            if who is None or who in roles:
                raise AnalysisError('gen_evaluations: evaluate_sum call on %s' % short(b['_W']))
            roles[who] = (c, b)
        if set(roles) != {'author', 'student'}:
            raise AnalysisError('gen_evaluations: author and student evaluate_sum calls not both found')
        (ac, ab), (sc, sb) = roles['author'], roles['student']
        r.ok('gen_evaluations: argument roles of evaluate_sum', "summand / limits / variable of the answer and of the submission", lib.loc(fi, ac))
        same_scope = nf.equal(ab['_VS'], sb['_VS']) and isinstance(ab['_VS'], ast.Name) and nf.equal(ab['_FS'], sb['_FS'])
        if not same_scope:
            raise AnalysisError('gen_evaluations: the two calls use different scope objects')
        VS = ab['_VS'].id
        # ---- GUARD
        construct = "gen_evaluations: the author's sum is guarded: MITxError -> ConfigError"
        tr = lib.enclosing_try(ac)
        if tr is None:
            r.violation(construct, "the author's evaluate_sum call is not inside a try: errors in the stored answer reach the student as "
                        "student-facing errors", lib.loc(fi, ac), expected='except MITxError: raise ConfigError')
        else:
            cover = [h for h in tr.handlers if any(n in ('MITxError', 'Exception', 'BaseException') for n in lib.handler_class_names(h))]
            if not cover:
                names = [n for h in tr.handlers for n in lib.handler_class_names(h)]
                r.violation(construct, 'the handler covers only %s: other library errors of the stored answer (e.g. an undefined variable, '
                            'CalcError) reach the student unchanged instead of ConfigError' % names, lib.loc(fi, tr),
                            expected='except MITxError', found=', '.join(names))
            else:
                ok, classes = X.body_raises(cover[0].body)
                if not ok and not classes:
                    r.violation(construct, 'the handler does not raise on every path: a failing author sum is ignored', lib.loc(fi, cover[0]))
                else:
                    r.check(ok and classes == {'ConfigError'}, construct, 'raises ConfigError',
                            "failures of the author's sum are reported as %s instead of ConfigError" % sorted(classes), lib.loc(fi, cover[0]),
                            expected='ConfigError', found=', '.join(sorted(classes)))
        construct = "gen_evaluations: the student's sum is not recast"
        str_ = lib.enclosing_try(sc)
        r.check(str_ is None, construct, 'outside any try', "the student's evaluate_sum call sits inside a try (`except %s`): the student's own "
                "errors are turned into something else" % (', '.join(n for h in str_.handlers for n in lib.handler_class_names(h)) if str_ else ''),
                lib.loc(fi, sc))
        # ---- deletion between the calls
        construct = "gen_evaluations: instructor variables are deleted before the student's sum"
        dels = [s for s in walk_own(fn) if (isinstance(s, ast.Delete) and any(isinstance(t, ast.Subscript) and X.is_name(t.value, VS) for t in s.targets))
                or (isinstance(s, ast.Expr) and isinstance(s.value, ast.Call) and isinstance(s.value.func, ast.Attribute)
                    and s.value.func.attr == 'pop' and X.is_name(s.value.func.value, VS))]
        if not dels:
            r.violation(construct, 'nothing is ever removed from `%s`: the student\'s summand and limits can use the instructor-only variables' % VS,
                        lib.loc(fi, sc), expected='for key in var_blacklist: del varlist[key]')
        else:
            loop = X.enclosing_loop(dels[0])
            src_ok = False
            bl = None
            if isinstance(loop, ast.For) and isinstance(loop.iter, ast.Name):
                bl = loop.iter.id
                for f in walk_own(fn):
                    if isinstance(f, ast.For) and lib.is_config(f.iter, 'instructor_vars') and isinstance(f.target, ast.Name):
                        if X.find_stmts(f, "%s.append(%s)" % (bl, f.target.id), own=False):
                            src_ok = True
            elif isinstance(loop, ast.For) and lib.is_config(loop.iter, 'instructor_vars'):
                src_ok = True
            between = X.passes_between(fi, ac, [loop if isinstance(loop, ast.For) and loop is not X.enclosing_loop(ac) else dels[0]], sc)
            r.check(between, construct, 'every path from the author\'s call to the student\'s passes the deletion',
                    "a path reaches the student's evaluate_sum without deleting the instructor variables", lib.loc(fi, dels[0]))
            if src_ok:
                r.ok("gen_evaluations: the deleted names come from config['instructor_vars']", bl or 'instructor_vars', lib.loc(fi, dels[0]))
            else:
                r.undecided("gen_evaluations: the deleted names come from config['instructor_vars']", 'origin of the deleted keys not recognised',
                            lib.loc(fi, dels[0]))
        # ---- reload per sample
        construct = "gen_evaluations: every sample is loaded into the scope before the author's sum"
        loads = [s for s, b in X.find_stmts(fn, "%s.update(var_samples[_I])" % VS)]
        main = X.enclosing_loop(ac)
        if main is None:
            raise AnalysisError('gen_evaluations: the evaluations are not inside a loop over the samples')
        if not loads:
            r.violation(construct, '`%s` is never updated with var_samples[i]: the sums are evaluated without the sampled variables' % VS,
                        lib.loc(fi, main), expected='%s.update(var_samples[i])' % VS)
        else:
            first = X.dominates(fi, loads, ac)
            again = X.passes_between(fi, sc, loads, ac)
            r.check(first and again, construct, 'dominates the first author call and separates a student call from the next author call',
                    "the author's sum of %s can run without the sample being loaded (instructor variables deleted for the "
                    "previous student's sum are still missing)" % ('the next sample' if first else 'a sample'), lib.loc(fi, loads[0]))
        # ---- results
        a_un = X.find_stmts(fn, "_A, _X = self.evaluate_sum(*__)")
        a_name = s_name = f_name = None
        for st, b in a_un:
            if X.in_subtree(ac, st) and isinstance(b['_A'], ast.Name):
                a_name = b['_A'].id
            if X.in_subtree(sc, st) and isinstance(b['_A'], ast.Name):
                s_name = b['_A'].id
                f_name = b['_X'].id if isinstance(b['_X'], ast.Name) else None
        if not (a_name and s_name and f_name):
            raise AnalysisError('gen_evaluations: results of the evaluate_sum calls are not bound to names')
        construct = 'gen_evaluations: values are stored and returned as (author values, student values, used functions)'
        a_app = X.find_stmts(fn, "_LIST.append(%s)" % a_name)
        s_app = X.find_stmts(fn, "_LIST.append(%s)" % s_name)
        rets = lib.returns_of(fn)
        if len(rets) != 1 or not isinstance(rets[0].value, ast.Tuple) or len(rets[0].value.elts) != 3:
            raise AnalysisError('gen_evaluations: return value is not a 3-tuple')
        e0, e1, e2 = rets[0].value.elts
        a_lists = {b['_LIST'].id for _, b in a_app if isinstance(b['_LIST'], ast.Name)}
        s_lists = {b['_LIST'].id for _, b in s_app if isinstance(b['_LIST'], ast.Name)}
        problems = []
        if not a_lists:
            problems.append("the author's value `%s` is never appended to a result list" % a_name)
        elif not (isinstance(e0, ast.Name) and e0.id in a_lists and e0.id not in s_lists):
            problems.append("the first returned list `%s` is not the one holding the author's values" % short(e0))
        if not s_lists:
            problems.append("the student's value `%s` is never appended to a result list" % s_name)
        elif not (isinstance(e1, ast.Name) and e1.id in s_lists and e1.id not in a_lists):
            problems.append("the second returned list `%s` is not the one holding the student's values" % short(e1))
        if not X.is_name(e2, f_name):
            problems.append("the third returned value `%s` is not the set of functions used by the student" % short(e2))
        r.check(not problems, construct, 'append/return roles agree', '; '.join(problems) +
                ': compare_evaluations would measure the tolerance relative to the wrong side / restrictions apply to the wrong functions',
                lib.loc(fi, rets[0]))
        for lst_stmt, _ in a_app + s_app:
            if not X.in_subtree(lst_stmt, main):
                r.violation(construct, '`%s` is outside the loop over the samples: only the last sample is compared' % short(lst_stmt), lib.loc(fi, lst_stmt))


# ----------------------------------------------------------------------------- D4
def d4_order(ctx, idx):
    r = ctx.rule('D4.ORDER', 'check(): count check (ConfigError) < blank fields (MissingInput) < dummy-variable validation '
                 '(InvalidInput) < check_math_response; normal forms of the helper predicates', floor=23)
    with r:
        fi = idx.func(SB + '.check')
        fn = fi.node
        if fi.params[:3] != ['self', 'answers', 'student_input']:
            raise AnalysisError('check: signature changed: %s' % fi.params)
        c1 = lib.one_call(fi, 'structure_and_validate_input')
        c4 = lib.one_call(fi, 'check_math_response')
        c3s = lib.calls_named(fn, 'validate_user_dummy_variable')
        st1 = lib.enclosing_stmt(c1)
        if not (isinstance(st1, ast.Assign) and len(st1.targets) == 1 and isinstance(st1.targets[0], ast.Name)):
            raise AnalysisError('check: result of structure_and_validate_input is not bound to a name')
        SI = st1.targets[0].id
        r.check(X.m("self.structure_and_validate_input(student_input)", c1) is not None and X.dominates(fi, c1, c4),
                'check: the input count is validated before grading', 'structure_and_validate_input(student_input) dominates check_math_response',
                'check_math_response can run without structure_and_validate_input(student_input)', lib.loc(fi, c1))
        # blank loop
        construct = 'check: blank fields raise MissingInput before grading'
        loops = [l for l in walk_own(fn) if isinstance(l, ast.For) and X.mentions(l.iter, SI)]
        blank = None
        for l in loops:
            for s in ast.walk(l):
                if isinstance(s, ast.If) and any(isinstance(x, ast.Raise) for x in ast.walk(s)):
                    blank = (l, s)
        if blank is None:
            r.violation(construct, 'no loop over the structured input raises for empty fields: a blank limit or summand reaches the parser and '
                        'a blank variable name crashes is_valid_variable_name', fi.loc, expected="if structured_input[key] == '': raise MissingInput")
        else:
            l, s = blank
            elem = _element_exprs(l, SI)
            t = nf.canon(s.test)
            kind = None
            if isinstance(t, ast.Compare) and len(t.ops) == 1 and isinstance(t.ops[0], (ast.Eq, ast.Is)) and \
                    any(nf.equal(t.left, e) for e in elem) and isinstance(t.comparators[0], ast.Constant):
                kind = 'ok' if (t.comparators[0].value == '' and isinstance(t.ops[0], ast.Eq)) else 'const'
            elif isinstance(t, ast.UnaryOp) and isinstance(t.op, ast.Not) and any(nf.equal(t.operand, e) for e in elem):
                kind = 'ok'
            elif isinstance(t, ast.Compare) and len(t.ops) == 1 and isinstance(t.ops[0], (ast.NotEq, ast.IsNot)) and \
                    any(nf.equal(t.left, e) for e in elem) and isinstance(t.comparators[0], ast.Constant) and t.comparators[0].value == '':
                kind = 'inverted'
            if kind == 'ok':
                r.ok(construct + ' [test]', short(s.test), lib.loc(fi, s))
            elif kind == 'const':
                r.violation(construct + ' [test]', "the field is compared with %r instead of '': edX sends blank fields as empty strings, so they are "
                            "no longer refused" % (t.comparators[0].value,), lib.loc(fi, s), expected="== ''", found=short(s.test))
            elif kind == 'inverted':
                r.violation(construct + ' [test]', 'the test is inverted: every filled field raises', lib.loc(fi, s), expected="== ''", found=short(s.test))
            else:
                r.undecided(construct + ' [test]', 'blank test not recognised: %s' % short(s.test), lib.loc(fi, s))
            ok, classes = X.body_raises(s.body)
            r.check(ok and classes == {'MissingInput'}, construct + ' [class]', 'raises MissingInput',
                    'blank fields raise %s instead of MissingInput' % (sorted(classes) or 'nothing'), lib.loc(fi, s), expected='MissingInput')
            exits = [e for e in lib.loop_has_early_exit(l) if not isinstance(e, ast.Raise)]
            r.check(not exits, construct + ' [every field]', 'the loop visits every field', 'the loop over the fields can stop early (`%s`)' %
                    (short(exits[0]) if exits else ''), lib.loc(fi, l))
            r.check(X.dominates(fi, l, c4), construct + ' [before grading]', 'dominates check_math_response',
                    'check_math_response can run before the blank-field check', lib.loc(fi, l))
        # dummy variable
        construct = 'check: the dummy variable is validated before grading'
        if not c3s:
            r.violation(construct, 'validate_user_dummy_variable is never called: a summation variable that already has a meaning (pi, a function '
                        'name) or is ill-formed is accepted', fi.loc)
        else:
            c3 = c3s[0]
            argok = X.m("self.validate_user_dummy_variable(%s[self.wording['adjective'] + '_variable'])" % SI, c3) is not None
            r.check(argok and X.dominates(fi, c3, c4), construct, 'dominates check_math_response',
                    'check_math_response can run before/without validate_user_dummy_variable(<entered variable>)', lib.loc(fi, c3))
            if blank is not None:
                r.check(X.dominates(fi, blank[0], c3), 'check: blank fields are refused before the dummy-variable validation',
                        'blank loop dominates validate_user_dummy_variable',
                        "validate_user_dummy_variable runs before the blank-field check: a blank variable name makes is_valid_variable_name "
                        "fail with IndexError (front[0] of '') instead of MissingInput", lib.loc(fi, c3))
        _helpers(r, idx)


def _element_exprs(loop, SI):
    """Expressions denoting the current field inside a loop over the structured input."""
    out = []
    if isinstance(loop.target, ast.Name) and X.is_name(loop.iter, SI):
        out.append(nf.pat("%s[%s]" % (SI, loop.target.id)))
    if isinstance(loop.iter, ast.Call) and isinstance(loop.iter.func, ast.Attribute) and X.is_name(loop.iter.func.value, SI):
        if loop.iter.func.attr == 'items' and isinstance(loop.target, ast.Tuple) and len(loop.target.elts) == 2 \
                and all(isinstance(e, ast.Name) for e in loop.target.elts):
            out.append(nf.pat(loop.target.elts[1].id))
            out.append(nf.pat("%s[%s]" % (SI, loop.target.elts[0].id)))
        if loop.iter.func.attr == 'values' and isinstance(loop.target, ast.Name):
            out.append(nf.pat(loop.target.id))
        if loop.iter.func.attr == 'keys' and isinstance(loop.target, ast.Name):
            out.append(nf.pat("%s[%s]" % (SI, loop.target.id)))
    return out


def _helpers(r, idx):
    # structure_and_validate_input
    fi = idx.func(SB + '.structure_and_validate_input')
    fn = fi.node
    construct = 'structure_and_validate_input: a wrong number of inputs raises ConfigError'
    ifs = [s for s in walk_own(fn) if isinstance(s, ast.If) and X.mentions(s.test, 'student_input')]
    tcall = lib.calls_named(fn, 'transform_list_to_dict')
    if not ifs:
        r.violation(construct, 'the number of inputs is never compared with the number of expected fields: a missing box leads to IndexError',
                    fi.loc, expected='len(used_inputs) != len(student_input)')
    else:
        st = ifs[0]
        res = nf.classify("len(_UI) != len(student_input)", st.test)
        verdict(r, construct, res, lib.loc(fi, st), short(st.test), expected='len(used_inputs) != len(student_input)',
                why='both too few and too many inputs must be refused (too few would index past the list)')
        ok, classes = X.body_raises(st.body)
        r.check(ok and classes == {'ConfigError'}, construct + ' [class]', 'ConfigError', 'raises %s' % (sorted(classes) or 'nothing'), lib.loc(fi, st))
        if tcall:
            r.check(X.dominates(fi, st, tcall[0]), construct + ' [before structuring]', 'dominates transform_list_to_dict',
                    'the inputs are indexed before the count is checked', lib.loc(fi, st))
    if tcall:
        verdict(r, 'structure_and_validate_input: inputs are mapped with the validated positions',
                nf.classify("transform_list_to_dict(student_input, self.config['answers'], self.true_input_positions)", tcall[0]),
                lib.loc(fi, tcall[0]), expected="transform_list_to_dict(student_input, self.config['answers'], self.true_input_positions)")
    ui = X.find_stmts(fn, "_UI = [_K for _K in self.true_input_positions if self.true_input_positions[_K] is not None]")
    if ui:
        r.ok('structure_and_validate_input: expected fields = positions that are not None', '', lib.loc(fi, ui[0][0]))
    else:
        r.undecided('structure_and_validate_input: expected fields = positions that are not None', 'definition of the expected fields not recognised', fi.loc)
    # transform_list_to_dict
    fi = idx.func('mitxgraders.formulagrader.integralgrader.transform_list_to_dict')
    rets = lib.returns_of(fi.node)
    pat_t = "{_K: thelist[key_to_index_map[_K]] if key_to_index_map[_K] is not None else thedefaults[_K] for _K in key_to_index_map}"
    if len(rets) == 1:
        verdict(r, 'transform_list_to_dict: entered value where a position is given, the author\'s default otherwise',
                nf.classify(pat_t, lib.inline_locals(rets[0].value, fi.node)), lib.loc(fi, rets[0]), expected=pat_t)
    else:
        r.undecided('transform_list_to_dict', 'return not recognised', fi.loc)
    # validate_user_dummy_variable
    fi = idx.func(SB + '.validate_user_dummy_variable')
    ifs = [s for s in walk_own(fi.node) if isinstance(s, ast.If)]
    taken = [s for s in ifs if any(isinstance(c, ast.Compare) and isinstance(c.ops[0], ast.In) for c in ast.walk(s.test))]
    construct = 'validate_user_dummy_variable: a name that already has a meaning raises InvalidInput'
    if not taken:
        r.violation(construct, 'no membership test exists: functions and constants can be used as summation variable', fi.loc)
    else:
        st = taken[0]
        verdict(r, construct, nf.classify("varname in self.functions or varname in self.random_funcs or varname in self.constants", st.test),
                lib.loc(fi, st), '3 scopes', expected='varname in self.functions or varname in self.random_funcs or varname in self.constants',
                why='a name from the dropped scope is accepted as dummy variable and shadows/deletes that meaning')
        ok, classes = X.body_raises(st.body)
        r.check(ok and classes == {'InvalidInput'}, construct + ' [class]', 'InvalidInput', 'raises %s' % (sorted(classes) or 'nothing'), lib.loc(fi, st))
    wf = [s for s in ifs if any(isinstance(c, ast.Call) and nf.callee_name(c) == 'is_valid_variable_name' for c in ast.walk(s.test))]
    construct = 'validate_user_dummy_variable: an ill-formed name raises InvalidInput'
    if not wf:
        r.violation(construct, 'is_valid_variable_name is never consulted', fi.loc)
    else:
        st = wf[0]
        verdict(r, construct, nf.classify("not is_valid_variable_name(varname)", st.test), lib.loc(fi, st), expected='not is_valid_variable_name(varname)')
        ok, classes = X.body_raises(st.body)
        r.check(ok and classes == {'InvalidInput'}, construct + ' [class]', 'InvalidInput', 'raises %s' % (sorted(classes) or 'nothing'), lib.loc(fi, st))
    # validate_input_positions
    fi = idx.func(SB + '.validate_input_positions')
    fn = fi.node
    lst = X.find_stmts(fn, "_L = [input_positions[_K] for _K in input_positions if input_positions[_K] is not None]")
    if len(lst) != 1 or not isinstance(lst[0][1]['_L'], ast.Name):
        raise AnalysisError('validate_input_positions: list of used positions not recognised')
    Ln = lst[0][1]['_L'].id
    sets = X.find_stmts(fn, "_S = set(%s)" % Ln)
    if len(sets) != 1 or not isinstance(sets[0][1]['_S'], ast.Name):
        raise AnalysisError('validate_input_positions: set of used positions not recognised')
    Sn = sets[0][1]['_S'].id
    ifs = [s for s in walk_own(fn) if isinstance(s, ast.If)]
    consec = [s for s in ifs if any(isinstance(c, ast.Call) and nf.callee_name(c) == 'range' for c in ast.walk(s.test))]
    construct = 'validate_input_positions: positions must be 1..n without gaps'
    set_based = False
    if not consec:
        r.violation(construct, 'no test against range(1, n+1) exists: positions with gaps index past the list of inputs', fi.loc)
    else:
        st = consec[0]
        t = nf.canon(st.test)
        rc = [c for c in ast.walk(t) if isinstance(c, ast.Call) and nf.callee_name(c) == 'range'][0]
        start = rc.args[0] if len(rc.args) >= 2 else ast.Constant(value=0)
        stop = rc.args[1] if len(rc.args) >= 2 else (rc.args[0] if rc.args else None)
        whole = X.m("%s != set(range(_A, _B))" % Sn, t) is not None or X.m("%s != set(range(_B))" % Sn, t) is not None
        if not whole or stop is None or len(rc.args) > 2:
            r.undecided(construct, 'test not recognised: %s' % short(st.test), lib.loc(fi, st))
        else:
            set_based = True
            sok = isinstance(start, ast.Constant) and start.value == 1
            eres = nf.classify(["len(%s) + 1" % Sn, "len(%s) + 1" % Ln], stop)
            if sok and eres == nf.MATCH:
                r.ok(construct, short(st.test), lib.loc(fi, st))
            else:
                r.violation(construct, 'the reference set is `%s`, not range(1, n + 1): %s' % (
                    short(rc), 'positions are compared with 0..n-1, so the documented 1-based positions are rejected' if not sok
                    else 'the last position is not part of the reference set'), lib.loc(fi, st), expected='set(range(1, len(used) + 1))', found=short(rc))
            ok, classes = X.body_raises(st.body)
            r.check(ok and classes == {'ConfigError'}, construct + ' [class]', 'ConfigError', 'raises %s' % (sorted(classes) or 'nothing'), lib.loc(fi, st))
    construct = 'validate_input_positions: repeated positions raise ConfigError'
    dup = [s for s in ifs if X.mentions(s.test, Ln) and X.mentions(s.test, Sn) and s not in consec]
    if not dup:
        if set_based:
            r.violation(construct, 'no comparison of the number of positions with the number of distinct positions exists (the set-based gap test '
                        'cannot see duplicates): two fields read the same input box', fi.loc, expected='len(list) > len(set)')
        else:
            r.undecided(construct, 'duplicate test not found', fi.loc)
    else:
        st = dup[0]
        verdict(r, construct, nf.classify(["len(%s) < len(%s)" % (Sn, Ln), "len(%s) != len(%s)" % (Sn, Ln)], st.test), lib.loc(fi, st),
                expected='len(list) > len(set)')
        ok, classes = X.body_raises(st.body)
        r.check(ok and classes == {'ConfigError'}, construct + ' [class]', 'ConfigError', 'raises %s' % (sorted(classes) or 'nothing'), lib.loc(fi, st))
    rets = lib.returns_of(fn)
    pat_r = "{_K: input_positions[_K] - 1 if input_positions[_K] is not None else None for _K in input_positions}"
    if len(rets) == 1:
        verdict(r, 'validate_input_positions: 1-based positions become 0-based indices', nf.classify(pat_r, rets[0].value), lib.loc(fi, rets[0]),
                expected=pat_r, why='positions are used as list indices by transform_list_to_dict')
    else:
        r.undecided('validate_input_positions: return', 'not recognised', fi.loc)
    init = idx.func(SB + '.__init__')
    hits = X.find_stmts(init.node, "self.true_input_positions = self.validate_input_positions(self.config['input_positions'])")
    r.check(bool(hits), 'SummationGraderBase.__init__: true_input_positions', 'validated 0-based positions are stored',
            "the constructor no longer stores validate_input_positions(config['input_positions']) in true_input_positions", init.loc)


# ------------------------------------------------------------------------ self-test
MUTANTS = [
    Mutant('upper-not-inclusive', IG, "range(int(lower), int(upper + 1), delta)", "range(int(lower), int(upper), delta)", 'D1'),
    Mutant('swap-removed', IG, "        if lower > upper:\n            lower, upper = upper, lower\n", "", 'D1'),
    Mutant('swap-inverted', IG, "        if lower > upper:\n            lower, upper = upper, lower\n", "        if lower < upper:\n            lower, upper = upper, lower\n", 'D1'),
    Mutant('parity-odd-test', IG, "            if abs(lower % 2) != 1:", "            if abs(lower % 2) != 0:", 'D1'),
    Mutant('parity-even-step-back', IG, "            if abs(lower % 2) != 0:\n                lower += 1", "            if abs(lower % 2) != 0:\n                lower -= 1", 'D1'),
    Mutant('odd-step-one', IG, "            # Odd numbers only\n            delta = 2", "            # Odd numbers only\n            delta = 1", 'D1'),
    Mutant('minus-inf-sign', IG, "            lower = -infty_val", "            lower = infty_val", 'D1'),
    Mutant('plus-inf-not-replaced', IG, "        if upper == float('inf'):\n            upper = infty_val\n", "", 'D1'),
    Mutant('inf-inf-returns', IG, "            raise SummationError('Cannot sum from infty to infty.')", "            return 0", 'D1'),
    Mutant('first-term-dropped', IG, "range(int(lower), int(upper + 1), delta)", "range(int(lower) + delta, int(upper + 1), delta)", 'D1'),
    Mutant('odd-even-exchanged', IG, "        if even_odd == 1:\n            # Odd numbers only", "        if even_odd == 2:\n            # Odd numbers only", 'D1'),
    Mutant('minus-inf-not-replaced', IG, "        # Handle infinities\n        if lower == -float('inf'):\n            lower = -infty_val\n",
           "        # Handle infinities\n", 'D1'),
    Mutant('limits-clamped', IG, "        if lower == -float('inf'):\n            lower = -infty_val\n        if upper == float('inf'):\n            upper = infty_val\n",
           "        lower = max(lower, -infty_val)\n        upper = min(upper, infty_val)\n", 'D1'),
    Mutant('parity-closed-form-truncating', IG, "            if abs(lower % 2) != 1:\n                lower += 1", "            lower = 2 * int(lower / 2) + 1", 'D1'),
    Mutant('evaluations-filtered', IG, "evals = [eval_summand(n) for n in range(int(lower), int(upper + 1), delta)]",
           "evals = [eval_summand(n) for n in range(int(lower), int(upper + 1), delta) if n]", 'D1'),
    Mutant('always-fact-cutoff', IG, "            infty_val = self.config['infty_val']", "            infty_val = self.config['infty_val_fact']", 'D2'),
    Mutant('factorial-alias-forgotten', IG, "        if 'fact' in used_funcs or 'factorial' in used_funcs:", "        if 'fact' in used_funcs:", 'D2'),
    Mutant('cutoffs-exchanged', IG, "        if 'fact' in used_funcs or 'factorial' in used_funcs:", "        if not ('fact' in used_funcs or 'factorial' in used_funcs):", 'D2'),
    Mutant('lower-integer-check-dropped', IG, "        if abs(lower) != float('inf') and int(lower) != lower:\n            raise SummationError('Lower summation limit does not evaluate to an integer.')\n", "", 'D2'),
    Mutant('upper-inf-guard-dropped', IG, "        if abs(upper) != float('inf') and int(upper) != upper:", "        if int(upper) != upper:", 'D2'),
    Mutant('complex-upper-unchecked', IG, "        if isinstance(lower, complex) or isinstance(upper, complex):\n            raise SummationError(",
           "        if isinstance(lower, complex):\n            raise SummationError(", 'D2'),
    Mutant('scope-conflict-unchecked', IG, "        if summation_var in varscope:\n            msg = 'Summation variable {} conflicts with another previously-defined variable.'\n            raise SummationError(msg.format(summation_var))\n", "", 'D2'),
    Mutant('scope-conflict-inverted', IG, "        if summation_var in varscope:", "        if summation_var not in varscope:", 'D2'),
    Mutant('limit-error-class', IG, "            raise SummationError('Upper summation limit does not evaluate to an integer.')",
           "            raise ValueError('Upper summation limit does not evaluate to an integer.')", 'D2'),
    Mutant('index-left-in-scope', IG, "            del varscope[summation_var]\n            return value", "            return value", 'D2'),
    Mutant('even-odd-ignored', IG, "self.perform_summation(eval_summand, lower, upper, self.config['even_odd'], infty_val)",
           "self.perform_summation(eval_summand, lower, upper, 0, infty_val)", 'D2'),
    Mutant('summand-without-functions', IG, "            value, _ = evaluator(summand_str,\n                                 variables=varscope,\n                                 functions=funcscope,",
           "            value, _ = evaluator(summand_str,\n                                 variables=varscope,\n                                 functions=varscope,", 'D2'),
    Mutant('author-handler-narrowed', IG, "            except MITxError as error:", "            except SummationError as error:", 'D3'),
    Mutant('author-error-class', IG, "                msg = \"Summation Error with author's stored answer: {}\"\n                raise ConfigError(msg.format(str(error)))",
           "                msg = \"Summation Error with author's stored answer: {}\"\n                raise SummationError(msg.format(str(error)))", 'D3'),
    Mutant('instructor-vars-kept', IG, "            for key in var_blacklist:\n                del varlist[key]\n                \n            # Evaluate sums.", "            # Evaluate sums.", 'D3'),
    Mutant('sample-not-loaded', IG, "            varlist.update(var_samples[i])\n\n            # Evaluate sums. Error handling here is to catch author errors.",
           "            # Evaluate sums. Error handling here is to catch author errors.", 'D3'),
    Mutant('results-exchanged', IG, "instructor_eval=expected_eval)\n\n        return instructor_evals, student_evals, used_funcs",
           "instructor_eval=expected_eval)\n\n        return student_evals, instructor_evals, used_funcs", 'D3'),
    Mutant('author-value-overwritten', IG, "            instructor_evals.append(expected_eval)", "            instructor_evals.append(student_eval)", 'D3'),
    Mutant('blank-test-never-true', IG, "            if structured_input[key] == '':", "            if structured_input[key] is None:", 'D4'),
    Mutant('dummy-validation-dropped', IG, "        self.validate_user_dummy_variable(structured_input[self.wording['adjective'] + '_variable'])\n", "", 'D4'),
    Mutant('blank-check-after-dummy-validation', IG,
           "        for key in structured_input:\n            if structured_input[key] == '':\n                msg = \"Please enter a value for {key}, it cannot be empty.\"\n                raise MissingInput(msg.format(key=key))\n        self.validate_user_dummy_variable(structured_input[self.wording['adjective'] + '_variable'])\n",
           "        self.validate_user_dummy_variable(structured_input[self.wording['adjective'] + '_variable'])\n        for key in structured_input:\n            if structured_input[key] == '':\n                msg = \"Please enter a value for {key}, it cannot be empty.\"\n                raise MissingInput(msg.format(key=key))\n", 'D4'),
    Mutant('count-check-one-sided', IG, "        if len(used_inputs) != len(student_input):", "        if len(used_inputs) < len(student_input):", 'D4'),
    Mutant('blank-error-class', IG, "                raise MissingInput(msg.format(key=key))", "                raise ConfigError(msg.format(key=key))", 'D4'),
    Mutant('positions-zero-based-range', IG, "set(range(1, len(used_positions_set) + 1))", "set(range(len(used_positions_set)))", 'D4'),
    Mutant('positions-not-shifted', IG, "            key: input_positions[key] - 1  # Turn", "            key: input_positions[key]  # Turn", 'D4'),
    Mutant('constant-as-dummy-allowed', IG, "        if varname in self.functions or varname in self.random_funcs or varname in self.constants:",
           "        if varname in self.functions or varname in self.random_funcs:", 'D4'),
    Mutant('repeated-positions-allowed', IG, "        if len(used_positions_list) > len(used_positions_set):\n            raise ConfigError(\"Key input_positions has repeated indices.\")\n", "", 'D4'),
    Mutant('blank-check-removed', IG, "        for key in structured_input:\n            if structured_input[key] == '':\n                msg = \"Please enter a value for {key}, it cannot be empty.\"\n                raise MissingInput(msg.format(key=key))\n",
           "", 'D4'),
]

BENIGN = [
    Benign('limits-sorted-with-min-max', IG, "        if lower > upper:\n            lower, upper = upper, lower\n",
           "        lower, upper = min(lower, upper), max(lower, upper)\n"),
    Benign('parity-without-abs', IG, "            if abs(lower % 2) != 1:", "            if lower % 2 != 1:"),
    Benign('parity-test-positive-form', IG, "            if abs(lower % 2) != 1:", "            if lower % 2 == 0:"),
    Benign('parity-closed-form-exact', IG, "            if abs(lower % 2) != 1:\n                lower += 1", "            lower = lower + (1 - lower % 2)"),
    Benign('parity-closed-form-floor', IG, "            if abs(lower % 2) != 0:\n                lower += 1", "            lower = 2 * ((lower + 1) // 2)"),
    Benign('explicit-accumulation-loop', IG, "        evals = [eval_summand(n) for n in range(int(lower), int(upper + 1), delta)]\n        result = sum(evals)\n",
           "        result = 0\n        for n in range(int(lower), int(upper + 1), delta):\n            result = result + eval_summand(n)\n"),
    Benign('factorial-test-as-set-intersection', IG, "        if 'fact' in used_funcs or 'factorial' in used_funcs:",
           "        if used_funcs & {'fact', 'factorial'}:"),
    Benign('instructor-vars-popped', IG, "            for key in var_blacklist:\n                del varlist[key]\n                \n            # Evaluate sums.",
           "            for key in var_blacklist:\n                varlist.pop(key)\n\n            # Evaluate sums."),
    Benign('blank-loop-over-items', IG, "        for key in structured_input:\n            if structured_input[key] == '':",
           "        for key, entered in structured_input.items():\n            if entered == '':"),
    Benign('integer-test-by-modulo', IG, "        if abs(lower) != float('inf') and int(lower) != lower:",
           "        if abs(lower) != float('inf') and lower % 1 != 0:"),
    Benign('cutoff-as-conditional-expression', IG, "        if 'fact' in used_funcs or 'factorial' in used_funcs:\n            infty_val = self.config['infty_val_fact']\n        else:\n            infty_val = self.config['infty_val']\n",
           "        infty_val = self.config['infty_val_fact'] if ('fact' in used_funcs or 'factorial' in used_funcs) else self.config['infty_val']\n"),
]
