"""C19 -- SumGrader accepts exactly the sums equal in value to the author's.

Everything is decided from the shape of the code (normal forms, CFG order, handler contracts):
* D1  ENUM over extracted decision paths (E6) with an abstract limit domain (E7): `perform_summation` as a decision
      tree over symbolic limits; complete product of the limit classes x even_odd in {0,1,2};
* D2  NF/ORDER/PAIR: `evaluate_sum` -- three kinds of refusals (variable in scope, complex, non-integer finite) raise
      SummationError and dominate the summation; cutoff chosen over the complete Venn domain of {fact, factorial} in
      the used functions; argument roles of the summation call; the summand closure binds the index only through
      varscope[summation_var] and releases it on every normal exit;
* D3  GUARD/ORDER/ROLE: `gen_evaluations` -- author's call guarded by a handler for (a superclass of) MITxError that
      raises ConfigError, student's call unguarded, instructor variables deleted between the two calls and reloaded
      before the next author's call, results stored and returned in (author, student, functions) roles;
* D4  ORDER/NF: `SummationGraderBase.check` and helpers -- count check, blank check (MissingInput), dummy-variable
      validation (InvalidInput) dominate check_math_response, in that order; normal forms of the helper predicates.
Nothing of /repo is imported or executed.
"""
import ast

from ..index import AnalysisError, walk_own, short, unparse, parent, local_names as _local_names
from ..cfg import cfg_of
from .. import nf, lib
from ..selftest import Mutant, Benign
from . import _c13_nfx as X

ID = 'C19'
IG = 'mitxgraders/formulagrader/integralgrader.py'
FILES = [IG]

EXPLANATION = (
    "(D1) perform_summation is read as a decision tree (nf.decision_paths with locals substituted forward, loops / any() over "
    "literal tuples unrolled) whose guards and leaves are expressions over the symbolic parameters; they are evaluated in an "
    "abstract domain -- each limit is -inf, +inf or finite with a parity (and, when the code divides or clamps, a sign / "
    "beyond-the-cutoff) class, two finite limits are ordered <, = or >, the cutoff has a parity, even_odd in {0,1,2}; values "
    "are +-inf or affine forms over lower/upper/infty_val (int(), //, %, abs, max, min interpreted on the classes) -- and over "
    "the complete product of these classes the selected leaf must be SummationError for same-sign infinities, else the sum "
    "of eval_summand over range(first index of the right parity at or above the smaller limit (-cutoff for -inf), larger "
    "limit (+cutoff for +inf) + 1, 1 or 2), with no filter and no early exit; "
    "(D2) evaluate_sum: `summation_var in varscope`, complex limits and finite non-integer limits each raise "
    "SummationError on a test that dominates the summation; the cutoff is infty_val_fact exactly on the Venn regions "
    "where fact or factorial is among the used functions; perform_summation receives (closure, limits, "
    "config['even_odd'], cutoff); the closure stores the index into varscope[summation_var], evaluates the summand "
    "with (varscope, funcscope, self.suffixes), returns the value and deletes the index on every normal exit; "
    "(D3) SumGrader.gen_evaluations: the author's evaluate_sum call sits in a try whose handler covers MITxError and "
    "raises ConfigError on every path, the student's call is outside it; every path from the author's call to the "
    "student's call deletes the instructor variables from the scope both calls use, every path from a student's call "
    "to the next author's call reloads the sample; values are accumulated and returned in (author, student, used "
    "functions) roles (aliases followed); (D4) SummationGraderBase.check: structure_and_validate_input (count check -> "
    "ConfigError) < blank-field test (loop, next() or any() form; MissingInput) < validate_user_dummy_variable "
    "(InvalidInput, both tests) < check_math_response by CFG dominance; normal forms of validate_input_positions and "
    "transform_list_to_dict; (D5) in get_limits_and_funcs / evaluate_sum / gen_evaluations / raw_check no in-place mutation "
    "(mutating method, augmented or subscript store, del) reaches an object derived from a parse() or evaluator() result -- "
    "those belong to the process-wide parser cache -- while union()/set()/copy() results are fresh. A construct that is not found is a VIOLATION only when the enclosing function calls nothing "
    "but reviewed callees and no unreviewed helper is left after inlining; otherwise it is undecided.")
NOT_DECIDED = ("numeric equality of the two sums within tolerance (compare_evaluations, C04); values produced by the "
               "formula evaluator; IntegralGrader's quadrature (scipy absent; only the shared base class is covered); "
               "Python's range/int/% semantics (trusted).")
ASSUMPTIONS = ["the cutoff is integral (the parity of a replaced infinite limit is then the parity of the cutoff)",
               "limits reaching perform_summation are integers or +-inf (checked: single caller evaluate_sum, whose refusals dominate the call)",
               "x % 2 of an integer is 0 or 1 (Python semantics for a positive modulus), so abs() around it is redundant"]

SG = 'mitxgraders.formulagrader.integralgrader.SumGrader'
SB = 'mitxgraders.formulagrader.integralgrader.SummationGraderBase'


def check(ctx):
    _run_all(ctx, ctx.index, [d1_summation, d2_limits, d3_author, d4_order, d5_pure])


def _run_all(ctx, idx, fns):
    """Run the rule functions; an unexpected failure inside the checker is an analysis error, never a crash."""
    for f in fns:
        try:
            f(ctx, idx)
        except AnalysisError:
            raise
        except Exception as e:      # pragma: no cover - defensive
            ctx.rule('ENGINE.%s' % f.__name__, 'the checker could not finish this rule').undecided(
                '<checker>', '%s: %s' % (type(e).__name__, e))


def verdict(r, construct, res, where, ok_detail='', expected=None, why=''):
    """Record MATCH / DIFF / UNRECOGNISED with an explanation of why the difference matters."""
    if res == nf.MATCH:
        r.ok(construct, ok_detail, where)
    elif isinstance(res, tuple):
        r.violation(construct, res[1] + (': ' + why if why else ''), where, expected=expected)
    else:
        r.undecided(construct, 'shape not recognised' + (' (expected %s)' % expected if expected else ''), where)


# ----------------------------------------------------------------------------- infinity literals
def inf_sign(e):
    """+1 / -1 if the expression denotes +inf / -inf, 0 if it is not an infinity; Unrecognised for odd spellings."""
    if isinstance(e, ast.UnaryOp) and isinstance(e.op, ast.USub):
        s = inf_sign(e.operand)
        return -s
    if isinstance(e, ast.UnaryOp) and isinstance(e.op, ast.UAdd):
        return inf_sign(e.operand)
    if isinstance(e, ast.Call) and isinstance(e.func, ast.Name) and e.func.id == 'float' and len(e.args) == 1 \
            and isinstance(e.args[0], ast.Constant) and isinstance(e.args[0].value, str):
        v = e.args[0].value.strip().lower()
        if v in ('inf', '+inf', 'infinity', '+infinity'):
            return 1
        if v in ('-inf', '-infinity'):
            return -1
        return 0
    if isinstance(e, ast.Attribute) and e.attr in ('inf', 'infty', 'Inf', 'Infinity', 'PINF'):
        return 1
    if isinstance(e, ast.Attribute) and e.attr == 'NINF':
        return -1
    if isinstance(e, ast.Name) and e.id.lower() in ('inf', 'infinity'):
        return 1
    return 0


def inf_test(test):
    """(variable name, sign) if the canonical test is `<name> == +-inf`, else None."""
    t = nf.canon(test)
    if isinstance(t, ast.Compare) and len(t.ops) == 1 and isinstance(t.ops[0], ast.Eq):
        a, b = t.left, t.comparators[0]
        for x, y in ((a, b), (b, a)):
            if isinstance(x, ast.Name) and inf_sign(y) != 0:
                return x.id, inf_sign(y)
    return None


# ----------------------------------------------------------------------------- D1
# perform_summation is read as a decision tree (nf.decision_paths, locals substituted forward) whose guards and leaf
# are expressions over the *symbolic* parameters lower / upper / infty_val / even_odd.  Those expressions are evaluated
# in an abstract domain: a limit is -inf, +inf or finite with a parity / sign class; a value is +-inf or an affine form
# over the parameters.  The domain of the guards is finite and enumerated completely.
from fractions import Fraction as Fr

VARS3 = ('lower', 'upper', 'infty_val')


class Val(object):
    """+-inf or an affine form sum(coef[v] * v) + const over lower / upper / infty_val."""

    def __init__(self, inf=0, coef=None, const=0):
        self.inf = inf
        self.coef = {k: Fr(v) for k, v in (coef or {}).items() if v != 0}
        self.const = Fr(const)

    def key(self):
        return (self.inf, tuple(sorted(self.coef.items())), self.const)

    def __eq__(self, other):
        return isinstance(other, Val) and self.key() == other.key()

    def __hash__(self):
        return hash(self.key())

    def text(self):
        if self.inf:
            return '+inf' if self.inf > 0 else '-inf'
        parts = []
        for v in VARS3:
            c = self.coef.get(v)
            if c:
                parts.append(('-' if c == -1 else ('' if c == 1 else '%s*' % c)) + v)
        if self.const or not parts:
            parts.append(str(self.const))
        return ' + '.join(parts).replace('+ -', '- ')


def var(name):
    return Val(coef={name: 1})


class World(dict):
    """k (even_odd), L / U (class of each limit), rel (order of two finite limits), Cres (residue of the cutoff), M (modulus
    of the residue classes: the lcm of 2 and every constant modulus used by the code)."""

    def cls(self, v):
        return self['L'] if v == 'lower' else self['U']

    def residue(self, v, m):
        r = self['Cres'] if v == 'infty_val' else self.cls(v)['res']
        return r % m

    def parity(self, v):
        return self.residue(v, 2)


class Abstract(object):
    def __init__(self, world, guards=None):
        self.w = world
        self.guards = guards

    def value(self, e):
        """Abstract value of an expression, or None."""
        w = self.w
        if isinstance(e, ast.Name):
            if e.id in ('lower', 'upper'):
                c = w.cls(e.id)
                return Val(inf=c['inf']) if c['inf'] else var(e.id)
            if e.id == 'infty_val':
                return var('infty_val')
            if e.id == 'even_odd':
                return Val(const=w['k'])
            return None
        if isinstance(e, ast.Constant) and isinstance(e.value, (int, float)) and not isinstance(e.value, bool):
            if e.value in (float('inf'), float('-inf')):
                return Val(inf=1 if e.value > 0 else -1)
            if e.value != int(e.value):
                return None
            return Val(const=int(e.value))
        s = inf_sign(e)
        if s:
            return Val(inf=s)
        if isinstance(e, ast.UnaryOp) and isinstance(e.op, (ast.USub, ast.UAdd)):
            v = self.value(e.operand)
            if v is None:
                return None
            if isinstance(e.op, ast.UAdd):
                return v
            return Val(inf=-v.inf) if v.inf else Val(coef={k: -c for k, c in v.coef.items()}, const=-v.const)
        if isinstance(e, ast.IfExp):
            t = self.truth(e.test)
            if t is None:
                return None
            return self.value(e.body if t else e.orelse)
        if isinstance(e, ast.BinOp):
            a, b = self.value(e.left), self.value(e.right)
            if a is None or b is None:
                return None
            if isinstance(e.op, (ast.Add, ast.Sub)):
                sgn = 1 if isinstance(e.op, ast.Add) else -1
                if a.inf or b.inf:
                    if a.inf and b.inf and a.inf != sgn * b.inf:
                        return None
                    return Val(inf=a.inf or sgn * b.inf)
                coef = dict(a.coef)
                for k, c in b.coef.items():
                    coef[k] = coef.get(k, 0) + sgn * c
                return Val(coef=coef, const=a.const + sgn * b.const)
            if a.inf and isinstance(e.op, ast.Mod) and not b.inf:
                v = Val()
                v.nan = True              # inf % n is nan in Python (no exception)
                return v
            if a.inf or b.inf:
                return None
            if isinstance(e.op, ast.Mult):
                if not a.coef:
                    a, b = b, a
                if b.coef:
                    return None
                return Val(coef={k: c * b.const for k, c in a.coef.items()}, const=a.const * b.const)
            if isinstance(e.op, ast.Div) and not b.coef and b.const != 0:
                return Val(coef={k: c / b.const for k, c in a.coef.items()}, const=a.const / b.const)
            if isinstance(e.op, ast.FloorDiv) and not b.coef and b.const > 0:
                return self.rounded(Val(coef={k: c / b.const for k, c in a.coef.items()}, const=a.const / b.const), floor=True)
            if isinstance(e.op, ast.Mod) and not b.coef and b.const.denominator == 1 and b.const >= 2 \
                    and self.w['M'] % int(b.const) == 0:
                p = self.residue_of(a, int(b.const))
                return None if p is None else Val(const=p)
            return None
        if isinstance(e, ast.Call) and isinstance(e.func, ast.Name) and not e.keywords:
            if e.func.id in ('int', 'float') and len(e.args) == 1:
                v = self.value(e.args[0])
                if v is None or v.inf:
                    return v
                return self.rounded(v, floor=False) if e.func.id == 'int' else v
            if e.func.id == 'abs' and len(e.args) == 1:
                v = self.value(e.args[0])
                if v is not None and getattr(v, 'nan', False):
                    return v
                if v is not None and not v.inf and not v.coef:
                    return Val(const=abs(v.const))
                if v is not None and v.inf:
                    return Val(inf=1)
                if v is not None:
                    if len(v.coef) == 1 and list(v.coef)[0] in ('lower', 'upper') and self.w.cls(list(v.coef)[0]).get('sgn') == 'zero':
                        return Val(const=abs(v.const))
                    sg = self.sign(v)
                    if sg is not None:
                        return v if sg > 0 else Val(coef={k: -c for k, c in v.coef.items()}, const=-v.const)
                return None
            if e.func.id in ('max', 'min') and len(e.args) == 2:
                a, b = self.value(e.args[0]), self.value(e.args[1])
                c = self.compare(a, b)
                if c is None:
                    return None
                if c == 'nan':
                    return None
                big, small = (a, b) if c >= 0 else (b, a)
                return big if e.func.id == 'max' else small
        return None

    def integral(self, v):
        return all(c.denominator == 1 for c in v.coef.values()) and v.const.denominator == 1

    def residue_of(self, v, m):
        if v is None or v.inf or not self.integral(v):
            return None
        return int(sum(int(c) * self.w.residue(k, m) for k, c in v.coef.items()) + int(v.const)) % m

    def parity_of(self, v):
        return self.residue_of(v, 2)

    def rounded(self, v, floor):
        """int() / floor of an affine form whose value is an integer or a half-integer of known sign."""
        if self.integral(v) or self._always_integer(v):
            return v
        doubled = Val(coef={k: 2 * c for k, c in v.coef.items()}, const=2 * v.const)
        if not self.integral(doubled) or self.parity_of(doubled) != 1:
            return None
        if floor:
            return Val(coef=v.coef, const=v.const - Fr(1, 2))
        s = self.sign(v)
        if s is None:
            return None
        return Val(coef=v.coef, const=v.const - Fr(1, 2) * s)

    def _always_integer(self, v):
        doubled = Val(coef={k: 2 * c for k, c in v.coef.items()}, const=2 * v.const)
        return self.integral(doubled) and self.parity_of(doubled) == 0 and all(
            (2 * c).denominator == 1 for c in v.coef.values())

    def sign(self, v):
        """+1 / -1 if the (non-integer) value is positive / negative for every member of the classes, else None."""
        if len(v.coef) != 1:
            return None
        (name, c), = v.coef.items()
        M = self.w['M']
        if name == 'infty_val':
            first, direction = (self.w['Cres'] or M), 1
        else:
            cl = self.w.cls(name)
            sg = cl.get('sgn')
            if sg == 'zero':
                first, direction = 0, 0
            elif sg == 'neg':
                first, direction = cl['res'] - M, -1
            elif sg == 'pos':
                first, direction = (cl['res'] or M), 1
            else:
                first, direction = cl['res'], 1            # non-negative (sign not tracked)
        at_first = c * first + v.const
        grows = c * direction                      # moving away from zero changes the value by multiples of this sign
        if at_first > 0 and grows >= 0:
            return 1
        if at_first < 0 and grows <= 0:
            return -1
        return None

    def compare(self, a, b):
        """-1 / 0 / +1 for a < b / a == b / a > b in this world, or None."""
        if a is None or b is None:
            return None
        if getattr(a, 'nan', False) or getattr(b, 'nan', False):
            return 'nan'
        if a.inf or b.inf:
            if a.inf == b.inf:
                return 0
            if a.inf:
                return a.inf
            return -b.inf
        coef = dict(a.coef)
        for k, c in b.coef.items():
            coef[k] = coef.get(k, 0) - c
        coef = {k: c for k, c in coef.items() if c != 0}
        const = a.const - b.const
        if not coef:
            return (const > 0) - (const < 0)
        w = self.w
        if coef == {'lower': 1, 'upper': -1} or coef == {'lower': -1, 'upper': 1}:
            rel = {'lt': -1, 'eq': 0, 'gt': 1}[w['rel']] * (1 if coef['lower'] == 1 else -1)
            # integers: lower - upper is <= -1, 0 or >= 1
            if rel == 0:
                return (const > 0) - (const < 0)
            if rel > 0 and const >= 0:
                return 1
            if rel < 0 and const <= 0:
                return -1
            if rel > 0 and const > -1:
                return 1
            if rel < 0 and const < 1:
                return -1
            return None
        if len(coef) == 1:
            d = Val(coef=coef, const=const)
            (name, c), = coef.items()
            if name in ('lower', 'upper') and w.cls(name).get('sgn') == 'zero':
                return (const > 0) - (const < 0)
            sgn = self.sign(d)
            if sgn is not None:
                return sgn
            return None
        if const == 0 and len(coef) == 2 and 'infty_val' in coef and abs(coef['infty_val']) == 1:
            (name, c), = [(k, v) for k, v in coef.items() if k != 'infty_val']
            if name in ('lower', 'upper') and abs(c) == 1:
                pos = w.cls(name).get('pos', 'within')
                if c == coef['infty_val']:          # +-(v + C): sign of v - (-C)
                    s = -1 if pos == 'below' else 1
                else:                                # +-(v - C)
                    s = 1 if pos == 'above' else -1
                return s * (1 if c == 1 else -1)
        return None

    def bounds(self, a, b):
        """(lo, hi) bounds (None = unbounded) of a - b for integer limits whose order is known, else None."""
        if a is None or b is None or a.inf or b.inf or getattr(a, 'nan', False) or getattr(b, 'nan', False):
            return None
        coef = dict(a.coef)
        for k, c in b.coef.items():
            coef[k] = coef.get(k, 0) - c
        coef = {k: c for k, c in coef.items() if c != 0}
        const = a.const - b.const
        if coef == {'lower': 1, 'upper': -1} or coef == {'lower': -1, 'upper': 1}:
            rel = {'lt': -1, 'eq': 0, 'gt': 1}[self.w['rel']] * (1 if coef['lower'] == 1 else -1)
            if rel < 0:
                return (None, const - 1)
            if rel > 0:
                return (const + 1, None)
            return (const, const)
        if len(coef) == 2 and 'infty_val' in coef and abs(coef['infty_val']) == 1:
            (name, c), = [(k, v) for k, v in coef.items() if k != 'infty_val']
            if name in ('lower', 'upper') and abs(c) == 1:
                pos = self.w.cls(name).get('pos', 'within')
                if c == coef['infty_val']:               # c * (v + C): v + C >= 1 unless v lies below the cutoff range
                    lo, hi = (None, -1) if pos == 'below' else (1, None)
                else:                                    # c * (v - C): v - C <= -1 unless v lies above the cutoff range
                    lo, hi = (1, None) if pos == 'above' else (None, -1)
                if c == -1:
                    lo, hi = (None if hi is None else -hi), (None if lo is None else -lo)
                return (None if lo is None else lo + const, None if hi is None else hi + const)
        return None

    def truth(self, e):
        try:
            return bool(self.guards.compile(nf.canon(e))(self.w))
        except X.Unrecognised:
            return None


def _summation_guards():
    OPS = {ast.Lt: lambda c: c < 0, ast.LtE: lambda c: c <= 0, ast.Gt: lambda c: c > 0, ast.GtE: lambda c: c >= 0,
           ast.Eq: lambda c: c == 0, ast.NotEq: lambda c: c != 0}
    holder = {}

    def atom(e):
        if isinstance(e, ast.Compare) and len(e.ops) == 1 and isinstance(e.ops[0], (ast.In, ast.NotIn)) \
                and isinstance(e.comparators[0], (ast.Tuple, ast.List, ast.Set)) \
                and all(isinstance(x, ast.Constant) and isinstance(x.value, int) for x in e.comparators[0].elts):
            members = {x.value for x in e.comparators[0].elts}
            positive = isinstance(e.ops[0], ast.In)
            left = e.left

            def run_in(w, left=left, members=members, positive=positive):
                v = Abstract(w, holder['g']).value(left)
                if v is None or v.inf or v.coef:
                    raise X.Unrecognised('membership `%s` not decidable in the abstract domain' % short(e))
                return (v.const in members) == positive
            return run_in
        if isinstance(e, ast.Compare) and len(e.ops) == 1 and type(e.ops[0]) in OPS:
            f = OPS[type(e.ops[0])]
            left, right = e.left, e.comparators[0]

            def run(w, left=left, right=right, f=f):
                ab = Abstract(w, holder['g'])
                # abs(x) against infinity asks whether x is infinite, whatever its sign
                for a_, b_ in ((left, right), (right, left)):
                    if isinstance(a_, ast.Call) and isinstance(a_.func, ast.Name) and a_.func.id == 'abs' and len(a_.args) == 1 and inf_sign(b_) == 1:
                        v_ = ab.value(a_.args[0])
                        if v_ is not None and not getattr(v_, 'nan', False):
                            return f(0 if v_.inf else (-1 if a_ is left else 1))
                va, vb = ab.value(left), ab.value(right)
                c = ab.compare(va, vb)
                if c is None:
                    bd = ab.bounds(va, vb)
                    if bd is not None:
                        lo, hi = bd
                        outcomes = {f(x) for x in ((-1,) if hi is not None and hi < 0 else ()) + ((0,) if (lo is None or lo <= 0) and (hi is None or hi >= 0) else ())
                                    + ((1,) if lo is not None and lo > 0 else ())
                                    + ((-1,) if (hi is None or hi >= 0) and (lo is None or lo < 0) else ()) + ((1,) if (lo is None or lo <= 0) and (hi is None or hi > 0) else ())}
                        if len(outcomes) == 1:
                            return outcomes.pop()
                if c is None:
                    raise X.Unrecognised('comparison `%s` not decidable in the abstract domain' % short(e))
                if c == 'nan':
                    return isinstance(e.ops[0], ast.NotEq)      # every comparison with nan is false, except !=
                return f(c)
            return run
        return None
    g = X.Guards(atom)
    holder['g'] = g
    return g


def _classes(need_sign, need_beyond, which, M=2):
    out = [{'inf': -1}, {'inf': 1}]
    for res in range(M):
        signs = (('neg', 'pos') + (('zero',) if res == 0 else ())) if (need_sign or need_beyond) else (None,)
        for sg in signs:
            base = {'inf': 0, 'res': res, 'odd': bool(res % 2), 'neg': sg == 'neg', 'sgn': sg}
            out.append(dict(base))
            if need_beyond and sg in ('neg', 'pos'):
                out.append(dict(base, pos='below' if sg == 'neg' else 'above'))
    return out


def _range_of(p, fn_params):
    """(range call, filter?) reached by the leaf of a path: the sum of eval_summand over a range, or None."""
    e = p.leaf.expr
    for ptn in ("sum([eval_summand(_N) for _N in _RANGE])", "sum(eval_summand(_N) for _N in _RANGE)", "sum([eval_summand(_N) for _N in _RANGE], 0)",
                "sum(list([eval_summand(_N) for _N in _RANGE]))", "sum(list(eval_summand(_N) for _N in _RANGE))"):
        b = X.m(ptn, e)
        if b is not None and isinstance(b['_RANGE'], ast.Call) and nf.callee_name(b['_RANGE']) == 'range':
            return b['_RANGE'], None
    if isinstance(e, ast.Call) and nf.callee_name(e) == 'sum' and e.args and isinstance(e.args[0], (ast.ListComp, ast.GeneratorExp)):
        comp = e.args[0]
        if len(comp.generators) == 1 and comp.generators[0].ifs and X.m("eval_summand(_N)", comp.elt) is not None:
            return comp.generators[0].iter, comp.generators[0].ifs[0]
    # accumulating loop among the effects of the path
    if isinstance(e, ast.Name):
        for eff in p.effects:
            if isinstance(eff, ast.For) and isinstance(eff.iter, ast.Call) and nf.callee_name(eff.iter) == 'range' \
                    and isinstance(eff.target, ast.Name):
                body = [s for s in eff.body if not isinstance(s, ast.Expr) and not _is_probe(s)]
                if len(body) == 1 and X.any_match([X.spat("%s = %s + eval_summand(%s)" % (e.id, e.id, eff.target.id)),
                                                   X.spat("%s = eval_summand(%s) + %s" % (e.id, eff.target.id, e.id))], body[0]) is not None \
                        and not lib.loop_has_early_exit(eff) and not eff.orelse:
                    return eff.iter, None
    return None


def _is_probe(s):
    return isinstance(s, ast.Assign) and len(s.targets) == 1 and isinstance(s.targets[0], ast.Name) and isinstance(s.value, ast.Constant)


def _const_value(fi0, e):
    """The value expression of a class- or module-level constant bound once, else None."""
    if isinstance(e, ast.Name):
        vals = fi0.module.assigns.get(e.id, [])
        return vals[0] if len(vals) == 1 else None
    if isinstance(e, ast.Attribute) and isinstance(e.value, ast.Name) and fi0.cls is not None and e.value.id in ('self', 'cls', fi0.cls.name):
        return fi0.cls.attrs.get(e.attr)
    return None


def _table_reading(idx, fi0):
    """The function with the table-driven idioms read as statements: helpers that only search a table inlined, next() over
    a constant table as a first-match chain, message-then-raise fused, generator of terms as the comprehension it is."""
    local = set(_local_names(fi0.node)) | set(fi0.params)

    def rows_of(e):
        v = _const_value(fi0, e) if not (isinstance(e, ast.Name) and e.id in local) else None
        if isinstance(e, (ast.Tuple, ast.List)):
            v = e
        if isinstance(v, (ast.Tuple, ast.List)) and v.elts and all(isinstance(x, (ast.Tuple, ast.List)) for x in v.elts):
            return list(v.elts)
        return None
    left = set(getattr(idx, 'unreviewed', None) or [])
    view, done = X.inline_pure_calls(idx, fi0, only=left)
    X.settle_unreviewed(idx, done, {fi0.qualname})
    view = X.expand_next_over_tables(view, rows_of)
    view = X.fuse_message_raise(view)
    return _inline_term_generators(idx, view)


def _inline_term_generators(idx, fi):
    """`G(f, xs)` for a package generator `def G(f, xs): for n in xs: yield f(n)` is the comprehension [f(n) for n in xs]."""
    from ..index import clone, set_parents
    orig = getattr(fi, 'original', fi)
    node = clone(fi.node)
    mapping = {}
    for a, b in zip(ast.walk(fi.node), ast.walk(node)):
        if isinstance(a, ast.Call):
            mapping[id(b)] = a
    done = set()

    class T(ast.NodeTransformer):
        def visit_Call(self, n):
            self.generic_visit(n)
            a = mapping.get(id(n))
            if a is None or len(n.args) != 2 or n.keywords:
                return n
            try:
                targets, how = idx.resolve_call(orig, a)
            except Exception:
                return n
            fts = [t for t in targets if hasattr(t, 'node')]
            if len(fts) != 1 or len(fts[0].params) != 2:
                return n
            h = fts[0]
            body = [s_ for s_ in h.node.body if not (isinstance(s_, ast.Expr) and isinstance(s_.value, ast.Constant))]
            F, XS = h.params
            if len(body) == 1 and isinstance(body[0], ast.For) and X.is_name(body[0].iter, XS) and isinstance(body[0].target, ast.Name) \
                    and not body[0].orelse and len(body[0].body) == 1 and isinstance(body[0].body[0], ast.Expr) \
                    and isinstance(body[0].body[0].value, ast.Yield) and X.m("%s(%s)" % (F, body[0].target.id), body[0].body[0].value.value) is not None:
                done.add(h.qualname)
                v = ast.Name(id='_n', ctx=ast.Load())
                return ast.copy_location(ast.ListComp(elt=ast.Call(func=n.args[0], args=[v], keywords=[]), generators=[
                    ast.comprehension(target=ast.Name(id='_n', ctx=ast.Store()), iter=n.args[1], ifs=[], is_async=0)]), n)
            return n
    new = T().visit(node)
    if not done:
        return fi
    X.settle_unreviewed(idx, done, {orig.qualname})
    ast.fix_missing_locations(new)
    set_parents(new)
    return X.View(fi, new)


def d1_summation(ctx, idx):
    r = ctx.rule('D1.SUM', 'perform_summation, read as a decision tree over symbolic limits: every integer between the ordered '
                 'limits inclusive, odd/even only when configured, +-inf -> cutoff, same-sign infinities refused', floor=6)
    with r:
        fi0 = idx.func(SG + '.perform_summation')
        if not fi0.is_static or fi0.params[:5] != ['eval_summand', 'lower', 'upper', 'even_odd', 'infty_val']:
            raise AnalysisError('perform_summation: signature changed: %s' % fi0.params)
        fi1, done = X.inline_decision_calls(idx, fi0, only=set(getattr(idx, 'unreviewed', None) or []))
        X.settle_unreviewed(idx, done, {fi0.qualname})
        fi1 = _table_reading(idx, fi1)
        def table(e):
            """A class- or module-level constant bound once to a dict display."""
            v = _const_value(fi0, e)
            return v if isinstance(v, ast.Dict) else None
        fi = X.unrolled(X.expand_table_lookups(fi1, table))
        fn = fi.node
        paths = nf.decision_paths(fn.body)
        guards = _summation_guards()
        compiled = [([guards.compile(g) for g in p.guards], p) for p in paths]
        need_sign = any(isinstance(n, ast.BinOp) and isinstance(n.op, (ast.Div, ast.FloorDiv)) for n in ast.walk(fn))
        need_beyond = any(isinstance(n, ast.Call) and isinstance(n.func, ast.Name) and n.func.id in ('max', 'min') for n in ast.walk(fn))
        names = {
            'all': 'perform_summation: even_odd=0 sums every integer between the limits, inclusive',
            'odd': 'perform_summation: even_odd=1 sums the odd integers between the limits',
            'even': 'perform_summation: even_odd=2 sums the even integers between the limits',
            'swap': 'perform_summation: reversed limits give the same sum',
            'inf': 'perform_summation: an infinite limit is replaced by -/+ the cutoff',
            'infinf': 'perform_summation: same-sign infinite limits raise SummationError',
            'finite': 'perform_summation: finite limits are used as given (also beyond the cutoff)',
        }
        stats = {k: {'n': 0, 'bad': []} for k in names}
        _sort_before_alignment(r, fi)
        need_sign = need_sign or any(isinstance(n, ast.BinOp) and isinstance(n.op, ast.Mult) for n in ast.walk(fn))
        M = 2
        for n in ast.walk(fn):
            if isinstance(n, ast.BinOp) and isinstance(n.op, ast.Mod) and isinstance(n.right, ast.Constant) \
                    and isinstance(n.right.value, int) and 2 <= n.right.value <= 12:
                import math
                M = M * n.right.value // math.gcd(M, n.right.value)
        ORDER = {'neg': 0, 'zero': 1, 'pos': 2}
        for L in _classes(need_sign, need_beyond, 'L', M):
            for U in _classes(need_sign, need_beyond, 'U', M):
                rels = ('lt', 'eq', 'gt') if not L['inf'] and not U['inf'] else ('lt',)
                for rel in rels:
                    if rel == 'eq' and (L != U):
                        continue
                    if not L['inf'] and not U['inf'] and L.get('sgn') and L['sgn'] != U['sgn']:
                        if rel == 'eq' or (rel == 'lt') != (ORDER[L['sgn']] < ORDER[U['sgn']]):
                            continue
                    if not L['inf'] and not U['inf'] and L.get('sgn') == 'zero' and U.get('sgn') == 'zero' and rel != 'eq':
                        continue
                    if not L['inf'] and not U['inf'] and L.get('pos') and U.get('pos') and L['pos'] != U['pos'] and \
                            (rel == 'lt') != (L['pos'] == 'below'):
                        continue
                    for Cres in range(M):
                        for k in (0, 1, 2):
                            w = World(L=L, U=U, rel=rel, Cres=Cres, Codd=bool(Cres % 2), M=M, k=k)
                            _judge_world(w, compiled, guards, stats, fi)
        for key, label in names.items():
            st = stats[key]
            if st['bad']:
                text, want, got, p = st['bad'][0]
                r.violation(label, 'for %s the code %s, the property needs %s (%d of %d cases of the abstract domain differ)'
                            % (text, got, want, len(st['bad']), st['n']),
                            lib.loc(fi, p.leaf.stmt) if p is not None and p.leaf.stmt is not None else fi.loc, expected=want, found=got)
            elif st['n']:
                r.ok(label, '%d cases of the abstract domain' % st['n'], fi.loc)
        callers = [f for f in idx.package_funcs() if lib.calls_named(f.node, 'perform_summation')]
        if [f.qualname for f in callers] != [SG + '.evaluate_sum']:
            r.undecided('perform_summation: callers', 'called from %s' % [f.qualname for f in callers], fi.loc)


def _sort_before_alignment(r, fi):
    """Two rewrites of the pair of limits: the exchange that orders them and the +1 that moves the first term onto the
    requested parity.  The alignment must act on the limit that IS the smaller one, i.e. the exchange comes first."""
    fn = fi.node
    swaps, aligns = [], []
    for st in walk_own(fn):
        if isinstance(st, ast.Assign) and len(st.targets) == 1 and isinstance(st.targets[0], ast.Tuple) and isinstance(st.value, ast.Tuple) \
                and len(st.targets[0].elts) == 2 and len(st.value.elts) == 2 and all(isinstance(x, ast.Name) for x in st.targets[0].elts + st.value.elts) \
                and [x.id for x in st.targets[0].elts] == [x.id for x in st.value.elts][::-1] and st.targets[0].elts[0].id != st.targets[0].elts[1].id:
            names = {x.id for x in st.targets[0].elts}
            gate = [a for a in _enclosing_ifs(st, fn)]
            if gate and isinstance(nf.canon(gate[0].test), ast.Compare) and names <= X.names_loaded(gate[0].test):
                swaps.append((st, names))
        inc = None
        if isinstance(st, ast.AugAssign) and isinstance(st.op, (ast.Add, ast.Sub)) and isinstance(st.target, ast.Name) \
                and isinstance(st.value, ast.Constant) and st.value.value == 1:
            inc = st.target.id
        elif isinstance(st, ast.Assign) and len(st.targets) == 1 and isinstance(st.targets[0], ast.Name) and X.any_match(
                ["%s + 1" % st.targets[0].id, "%s - 1" % st.targets[0].id, "1 + %s" % st.targets[0].id], st.value) is not None:
            inc = st.targets[0].id
        if inc:
            gate = [a for a in _enclosing_ifs(st, fn)]
            if gate and any(isinstance(n, ast.BinOp) and isinstance(n.op, ast.Mod) for n in ast.walk(gate[0].test)):
                aligns.append((st, inc))
    if len(swaps) != 1 or not aligns:
        return
    sw, names = swaps[0]
    construct = 'perform_summation: the limits are ordered before the first term is moved onto the requested parity'
    late = [(st, n) for st, n in aligns if n in names and not X.dominates(fi, sw.targets[0] and _enclosing_ifs_top(sw, fn), st)]
    cfg = cfg_of(fn)
    reach_sw = []
    for st, n in aligns:
        nodes = cfg.nodes_of(st)
        if n in names and nodes and any(x in cfg.reach(nodes, include_starts=False) for x in cfg.nodes_of(sw)):
            reach_sw.append((st, n))
    if reach_sw:
        st, n = reach_sw[0]
        r.violation(construct, '`%s` (parity alignment of `%s`) runs BEFORE the exchange `%s` that orders the limits: with limits given in '
                    'reverse order the limit that was aligned ends up as the END of the range and the sum starts at the other, unaligned '
                    'limit (terms of the wrong parity are summed); with equal limits of the wrong parity the shifted limit overtakes the '
                    'other one and the exchange turns the empty range into a one-term range' % (short(st), n, short(sw)),
                    lib.loc(fi, st), expected='order the limits first, then align the first term')
    elif not late:
        r.ok(construct, '`%s` dominates the alignment' % short(sw), lib.loc(fi, sw))


def _enclosing_ifs_top(st, fn):
    top = st
    for a_ in _enclosing_ifs(st, fn):
        top = a_
    return top


def _limit_text(name, c):
    if c['inf']:
        return '%s = %sinf' % (name, '-' if c['inf'] < 0 else '+')
    bits = ['odd' if c['odd'] else 'even']
    if c.get('sgn'):
        bits.insert(0, {'neg': 'negative', 'zero': 'zero', 'pos': 'positive'}[c['sgn']])
    if c.get('pos'):
        bits.append('%s the cutoff range' % c['pos'])
    if c.get('res') is not None and c['res'] > 1:
        bits.append('residue %d' % c['res'])
    return '%s finite (%s)' % (name, ', '.join(bits))


def _judge_world(w, compiled, guards, stats, fi):
    ab = Abstract(w, guards)
    L, U = w['L'], w['U']
    lv, uv = ab.value(ast.Name(id='lower', ctx=ast.Load())), ab.value(ast.Name(id='upper', ctx=ast.Load()))
    c = ab.compare(lv, uv)
    swapped = c is not None and c != 'nan' and c > 0
    lo, hi = (uv, lv) if swapped else (lv, uv)
    k = w['k']
    if lo.inf > 0 or hi.inf < 0:
        want = ('raise', 'SummationError')
        group = 'infinf'
    else:
        lo2 = Val(coef={'infty_val': -1}) if lo.inf else lo
        hi2 = Val(coef={'infty_val': 1}) if hi.inf else hi
        par = ab.parity_of(lo2)
        adj = 1 if ((k == 1 and par == 0) or (k == 2 and par == 1)) else 0
        start = Val(coef=lo2.coef, const=lo2.const + adj)
        stop = Val(coef=hi2.coef, const=hi2.const + 1)
        want = ('range', start, stop, 1 if k == 0 else 2)
        if L.get('pos') or U.get('pos'):
            group = 'finite'
        elif lo.inf or hi.inf:
            group = 'inf'
        elif swapped:
            group = 'swap'
        else:
            group = {0: 'all', 1: 'odd', 2: 'even'}[k]
    text = '%s, %s%s, even_odd=%d%s' % (_limit_text('lower', L), _limit_text('upper', U),
                                         (', lower %s upper' % {'lt': '<', 'eq': '=', 'gt': '>'}[w['rel']]) if not L['inf'] and not U['inf'] else '',
                                         k, (', cutoff %s' % ('odd' if w['Codd'] else 'even')) if (L['inf'] or U['inf']) else '')
    sel = [p for gs, p in compiled if all(g(w) for g in gs)]
    if len(sel) != 1:
        raise AnalysisError('decision paths of perform_summation are not exclusive (%d for one case)' % len(sel))
    p = sel[0]
    for eff in p.effects:
        if isinstance(eff, ast.stmt) and X.assigned_names(eff) and not (isinstance(eff, ast.For) and _range_of(p, None) is not None
                                                                      and _range_of(p, None)[0] is eff.iter):
            raise AnalysisError('perform_summation: statement `%s` is not followed by the symbolic reading' % short(eff, 60))
    st = stats[group]
    st['n'] += 1
    if p.leaf.kind == 'raise':
        got = ('raise', nf.exc_class_name(p.leaf.expr) if p.leaf.expr is not None else 're-raise')
    elif p.leaf.kind == 'fall':
        got = ('none',)
    else:
        rg = _range_of(p, None)
        if rg is None:
            if want[0] == 'raise':
                got = ('value',)
            else:
                raise AnalysisError('the returned value `%s` is not recognised as the sum of eval_summand over a range' % short(p.leaf.expr))
        else:
            rng, flt = rg
            if flt is not None:
                got = ('filtered', short(flt))
            else:
                args = list(rng.args)
                if len(args) == 1:
                    args = [ast.Constant(value=0), args[0]]
                a0, a1 = ab.value(args[0]), ab.value(args[1])
                a2 = ab.value(args[2]) if len(args) > 2 else Val(const=1)
                if a0 is not None and a1 is not None and (a0.inf or a1.inf):
                    got = ('overflow', short(rng))
                elif want[0] == 'range' and (a0 is None or a1 is None or a2 is None or a2.coef or a2.inf):
                    raise AnalysisError('range bounds `%s` not analysable for %s' % (short(rng), text))
                else:
                    got = ('range', a0, a1, int(a2.const) if a2 is not None and not a2.coef and not a2.inf else None)
    if want[0] == 'range' and got[0] == 'range' and w['rel'] == 'eq':
        # lower == upper: forms over `upper` and over `lower` denote the same number
        def norm(v):
            coef = dict(v.coef)
            if 'upper' in coef:
                coef['lower'] = coef.get('lower', 0) + coef.pop('upper')
            return Val(coef=coef, const=v.const)
        want = ('range', norm(want[1]), norm(want[2]), want[3])
        got = ('range', norm(got[1]), norm(got[2]), got[3])
    if got != want:
        st['bad'].append((text, _outcome_text(want), _outcome_text(got), p))


def _outcome_text(o):
    if o[0] == 'raise':
        return 'raise %s' % o[1]
    if o[0] == 'range':
        return 'sums k = %s, ..., below %s in steps of %s' % (o[1].text() if o[1] is not None else '?', o[2].text() if o[2] is not None else '?', o[3])
    if o[0] == 'overflow':
        return 'builds `%s` from an infinite limit (int() of it raises OverflowError)' % o[1]
    if o[0] == 'filtered':
        return 'drops the terms failing `%s`' % o[1]
    if o[0] == 'value':
        return 'returns a value'
    return 'returns None'


# ----------------------------------------------------------------------------- D2
def d2_limits(ctx, idx):
    r = ctx.rule('D2.LIMITS', 'evaluate_sum: refusals (variable in scope, complex, non-integer) raise SummationError before the '
                 'summation; cutoff by factorial use; summand closure binds and releases the index', floor=21)
    with r:
        fi = X.unrolled(_table_reading(idx, X.inline_procedures(idx, idx.func(SG + '.evaluate_sum'), only=set(getattr(idx, 'unreviewed', []) or []))))
        fn = fi.node
        KNOWN = {'get_limits_and_funcs', 'isinstance', 'abs', 'float', 'int', 'SummationError', 'format', 'evaluator', 'perform_summation'}
        understood = X.only_calls([s for s in fn.body if not isinstance(s, ast.FunctionDef)], KNOWN)
        if fi.params[:7] != ['self', 'summand_str', 'lower_str', 'upper_str', 'summation_var', 'varscope', 'funcscope']:
            raise AnalysisError('evaluate_sum: signature changed: %s' % fi.params)
        glf = X.find_stmts(fn, "_L, _U, _F = self.get_limits_and_funcs(summand_str, lower_str, upper_str, varscope, funcscope)")
        if len(glf) != 1:
            raise AnalysisError('evaluate_sum: the call of get_limits_and_funcs(summand_str, lower_str, upper_str, varscope, funcscope) '
                                'with its three results was not found')
        st_glf, b = glf[0]
        if not all(isinstance(b[k], ast.Name) for k in ('_L', '_U', '_F')):
            raise AnalysisError('evaluate_sum: results of get_limits_and_funcs are not bound to plain names')
        L, U, F = b['_L'].id, b['_U'].id, b['_F'].id
        ps_calls = lib.calls_named(fn, 'perform_summation')
        if len(ps_calls) != 1:
            raise AnalysisError('evaluate_sum: expected one call of perform_summation')
        ps = ps_calls[0]
        ifs = [s for s in walk_own(fn) if isinstance(s, ast.If)]

        def refusal(construct, st, why_missing):
            """The If statement must raise SummationError on every path of its body and dominate the summation."""
            ok, classes = X.body_raises(st.body)
            where = lib.loc(fi, st)
            if not ok and not classes:
                r.violation(construct, 'the branch `%s` does not raise' % short(st.test), where, expected='raise SummationError')
                return
            r.check(ok and classes == {'SummationError'}, construct + ' [class]', 'raises SummationError',
                    'the refusal raises %s instead of the student-facing SummationError' % sorted(classes), where,
                    expected='SummationError', found=', '.join(sorted(classes)))
            top = st
            for a_ in [x for x in _enclosing_ifs(st, fn)]:
                top = a_
            r.check(X.dominates(fi, top, ps), construct + ' [before the summation]', 'dominates perform_summation',
                    'the summation can run before/without this check', where)

        # (a) summation variable in scope
        construct = 'evaluate_sum: a summation variable already in scope is refused'
        cands = [s for s in ifs if {'summation_var', 'varscope'} <= X.names_loaded(s.test)]
        if not cands:
            X.absent(r, construct, 'no test of `summation_var in varscope` exists: a variable with a meaning (a sampled variable, i, j) is '
                     'silently overwritten and then deleted by the summand closure', fi.loc,
                     expected='if summation_var in varscope: raise SummationError', understood=understood)
        else:
            st = cands[0]
            res = nf.classify("summation_var in varscope", st.test)
            verdict(r, construct, res, lib.loc(fi, st), 'summation_var in varscope', expected='summation_var in varscope',
                    why='the refusal must fire exactly when the name is taken')
            refusal(construct, st, '')
        # (b) complex limits
        construct = 'evaluate_sum: complex limits are refused'
        cands = [s for s in ifs if any(isinstance(c, ast.Call) and nf.callee_name(c) == 'isinstance' and len(c.args) == 2
                                       and X.is_name(c.args[1], 'complex') for c in ast.walk(s.test))]
        if not cands:
            X.absent(r, construct, 'no isinstance(..., complex) test exists: complex limits reach int() and fail with TypeError', fi.loc,
                     expected='isinstance(lower, complex) or isinstance(upper, complex)', understood=understood)
        else:
            st = cands[0]
            res = nf.classify("isinstance(%s, complex) or isinstance(%s, complex)" % (L, U), st.test)
            verdict(r, construct, res, lib.loc(fi, st), 'both limits tested', expected='isinstance(lower, complex) or isinstance(upper, complex)',
                    why='a complex value of the untested limit reaches int() and fails with TypeError instead of SummationError')
            refusal(construct, st, '')
        # (c) integer limits
        for V, label in ((L, 'lower'), (U, 'upper')):
            construct = 'evaluate_sum: a finite non-integer %s limit is refused' % label
            cands = [s for s in ifs if X.mentions(s.test, V) and _mentions_integrality(s.test, V)]
            if not cands:
                X.absent(r, construct, 'no integrality test of the %s limit exists: int() truncates it silently and a different sum is graded'
                         % label, fi.loc, expected="abs(%s) != float('inf') and int(%s) != %s" % (label, label, label), understood=understood)
                continue
            st = cands[0]
            conj = _path_condition(st, fn)
            # the same check repeated on both sides of a decision about the OTHER limit (a loop over the two limits, unrolled):
            # the foreign condition drops out when the copies cover it and its negation
            foreign = [[c_ for c_ in _path_condition(x, fn) if not X.mentions(c_, V)] for x in cands]
            if len(cands) == 2 and all(len(f_) == 1 for f_ in foreign) and \
                    unparse(nf.canon(foreign[0][0])) == unparse(nf.canon(nf.negate(nf.canon(foreign[1][0])))):
                own = [[c_ for c_ in _path_condition(x, fn) if X.mentions(c_, V)] for x in cands]
                if unparse(ast.Tuple(elts=[nf.canon(c_) for c_ in own[0]], ctx=ast.Load())) == \
                        unparse(ast.Tuple(elts=[nf.canon(c_) for c_ in own[1]], ctx=ast.Load())) and \
                        all(X.body_raises(x.body) == X.body_raises(st.body) for x in cands):
                    conj = own[0]
            eff = nf.canon(ast.BoolOp(op=ast.And(), values=conj)) if len(conj) > 1 else conj[0]
            pats = ["abs(%s) != float('inf') and int(%s) != %s" % (V, V, V), "abs(%s) != float('inf') and %s %% 1 != 0" % (V, V),
                    "abs(%s) != float('inf') and not float(%s).is_integer()" % (V, V),
                    "%s != float('inf') and %s != -float('inf') and int(%s) != %s" % (V, V, V, V)]
            res = nf.classify(pats, eff)
            if res != nf.MATCH and eff is not st.test:
                res = None          # a nested form that is not one of the reference shapes: not compared textually
            verdict(r, construct, res, lib.loc(fi, st), short(eff), expected=pats[0].replace(V, label),
                    why='infinite limits must pass this test (int(inf) raises OverflowError) and every finite non-integer must fail it')
            refusal(construct, st, '')
        # (d) cutoff
        _cutoff(r, fi, ps, F)
        # (e) the call of perform_summation
        construct = 'evaluate_sum: perform_summation receives (closure, limits, even_odd, cutoff)'
        a = list(ps.args)
        eo = lib.get_kw(ps, 'even_odd', 3)
        closure_name = a[0].id if a and isinstance(a[0], ast.Name) else None
        if len(a) < 3 or closure_name is None or not (isinstance(a[1], ast.Name) and isinstance(a[2], ast.Name)):
            r.undecided(construct, 'call not recognised: %s' % short(ps), lib.loc(fi, ps))
        else:
            probs = []
            if {a[1].id, a[2].id} != {L, U}:
                probs.append('the limits passed are `%s`, `%s`, not the evaluated limits %s, %s' % (a[1].id, a[2].id, L, U))
            if eo is None:
                probs.append("even_odd is not passed: every sum runs over all integers whatever config['even_odd'] says")
            elif not lib.is_config(eo, 'even_odd'):
                if isinstance(eo, ast.Constant) or nf.config_key(eo) is not None:
                    probs.append("even_odd is `%s` instead of config['even_odd']: the configured parity is ignored" % short(eo))
                else:
                    raise AnalysisError('even_odd argument not recognised: %s' % short(eo))
            r.check(not probs, construct, short(ps, 90), '; '.join(probs), lib.loc(fi, ps),
                    expected="self.perform_summation(eval_summand, lower, upper, self.config['even_odd'], infty_val)")
        # (f) the closure
        if closure_name:
            _closure(r, idx, fi, closure_name)
        # (g) result
        rets = lib.returns_of(fn)
        construct = 'evaluate_sum: returns (sum, used functions)'
        okr = len(rets) == 1 and rets[0].value is not None
        if okr:
            val = lib.inline_locals(rets[0].value, fn)
            okr = isinstance(val, ast.Tuple) and len(val.elts) == 2 and val.elts[0] is not None and \
                isinstance(val.elts[0], ast.Call) and nf.callee_name(val.elts[0]) == 'perform_summation' and X.is_name(val.elts[1], F)
        if okr:
            r.ok(construct, '', lib.loc(fi, rets[0]))
        else:
            r.undecided(construct, 'return value not recognised', fi.loc)
        se = idx.cls('mitxgraders.formulagrader.integralgrader.SummationError')
        r.check('mitxgraders.exceptions.StudentFacingError' in se.mro, 'SummationError', 'a StudentFacingError',
                'SummationError no longer descends from StudentFacingError: limit errors are not shown to the student', se.loc)


def _enclosing_ifs(st, fn):
    """The if statements around st, innermost first (the decision the statement's path condition is read from)."""
    p_ = parent(st)
    while p_ is not None and p_ is not fn:
        if isinstance(p_, ast.If):
            yield p_
        elif not isinstance(p_, ast.If):
            return
        p_ = parent(p_)


def _path_condition(st, fn):
    """The tests of the enclosing if statements (negated on their else side) followed by the statement's own test.  The else
    side of an `if` whose body always raises adds nothing to a refusal: where that test holds the input is refused anyway."""
    conj = [st.test]
    node, p_ = st, parent(st)
    while p_ is not None and p_ is not fn:
        if isinstance(p_, ast.If):
            if any(node is x for x in p_.body):
                conj.insert(0, p_.test)
            elif any(node is x for x in p_.orelse) and X.body_raises(p_.body)[0]:
                pass
            elif any(node is x for x in p_.orelse):
                conj.insert(0, ast.UnaryOp(op=ast.Not(), operand=p_.test))
        node, p_ = p_, parent(p_)
    return conj


def _split_ifexp(assign):
    """`x = a if c else b`  ->  `if c: x = a  else: x = b` (so that the decision paths split on c)."""
    v = assign.value
    if isinstance(v, ast.IfExp):
        return ast.If(test=v.test, body=[_split_ifexp(ast.Assign(targets=assign.targets, value=v.body))],
                      orelse=[_split_ifexp(ast.Assign(targets=assign.targets, value=v.orelse))])
    return assign


def _mentions_integrality(test, V):
    for n in ast.walk(test):
        if isinstance(n, ast.Call) and isinstance(n.func, ast.Name) and n.func.id == 'int' and n.args and X.is_name(n.args[0], V):
            return True
        if isinstance(n, ast.BinOp) and isinstance(n.op, ast.Mod) and X.is_name(n.left, V):
            return True
        if isinstance(n, ast.Attribute) and n.attr == 'is_integer':
            return True
    return False


def _cutoff(r, fi, ps, F):
    fn = fi.node
    construct = 'evaluate_sum: factorial cutoff exactly when fact or factorial is used'
    # the cutoff argument
    arg = lib.get_kw(ps, 'infty_val', 4)
    if arg is None:
        r.violation(construct, 'perform_summation is called without a cutoff: the default 1e3 is used whatever the configuration says',
                    lib.loc(fi, ps))
        return
    # read the whole function as a decision tree (locals substituted forward) and look at the returning paths only: their
    # guards are the cutoff decision plus the negations of the refusals, which do not concern this clause
    paths = [p for p in nf.decision_paths(fn.body, keep_locals=tuple(fi.params)) if p.leaf.kind == 'ret']

    def value(p):
        calls = [c for c in ast.walk(p.leaf.expr) if isinstance(c, ast.Call) and nf.callee_name(c) == 'perform_summation']
        if len(calls) != 1:
            return None
        v = lib.get_kw(calls[0], 'infty_val', 4)
        while isinstance(v, ast.IfExp):
            return v                    # resolved by the caller
        return v

    subjects = {}           # name of the collection whose members are tested -> the test

    def subject(x, e):
        """x is a plain local/parameter name (the set that is searched for the factorial names)."""
        if isinstance(x, ast.Name) and set_literal(x) is None:
            subjects.setdefault(x.id, e)
            return True
        return False

    def member(e):
        """'fact'/'factorial' if e is `'<name>' in <subject>`."""
        if isinstance(e, ast.Compare) and len(e.ops) == 1 and isinstance(e.ops[0], (ast.In, ast.NotIn)) \
                and isinstance(e.left, ast.Constant) and isinstance(e.left.value, str) and subject(e.comparators[0], e):
            return e.left.value, isinstance(e.ops[0], ast.In)
        return None

    def set_literal(e, depth=0):
        if isinstance(e, (ast.Set, ast.List, ast.Tuple)) and e.elts and all(isinstance(x, ast.Constant) for x in e.elts):
            return {x.value for x in e.elts}
        if isinstance(e, ast.Call) and isinstance(e.func, ast.Name) and e.func.id in ('set', 'frozenset', 'tuple', 'list') and len(e.args) == 1:
            return set_literal(e.args[0], depth)
        if depth > 2:
            return None
        # a module- or class-level constant bound once
        v = None
        if isinstance(e, ast.Name) and e.id not in _local_names(fn) and e.id not in fi.params:
            vals = fi.module.assigns.get(e.id, [])
            v = vals[0] if len(vals) == 1 else None
        elif isinstance(e, ast.Attribute) and isinstance(e.value, ast.Name) and fi.cls is not None and (
                e.value.id in ('self', 'cls') or e.value.id == fi.cls.name):
            v = fi.cls.attrs.get(e.attr)
        return set_literal(v, depth + 1) if v is not None else None

    def atom(e):
        mb = member(e)
        if mb is not None:
            name, pos = mb
            return lambda w, name=name, pos=pos: (name in w['used']) == pos
        # S & {...} / {...} & S / S.intersection({...}) / not S.isdisjoint({...}), either way round
        if isinstance(e, ast.BinOp) and isinstance(e.op, ast.BitAnd):
            for x, y in ((e.left, e.right), (e.right, e.left)):
                if set_literal(y) is not None and subject(x, e):
                    lit = set_literal(y)
                    return lambda w, lit=lit: bool(w['used'] & lit)
        if isinstance(e, ast.Call) and isinstance(e.func, ast.Attribute) and len(e.args) == 1 and e.func.attr in ('intersection', 'isdisjoint'):
            for x, y in ((e.func.value, e.args[0]), (e.args[0], e.func.value)):
                if set_literal(y) is not None and subject(x, e):
                    lit = set_literal(y)
                    if e.func.attr == 'intersection':
                        return lambda w, lit=lit: bool(w['used'] & lit)
                    return lambda w, lit=lit: not (w['used'] & lit)
        return None
    guards = X.Guards(atom)
    bad = None
    # Venn regions of the used-function set with respect to {fact, factorial} (+ an unrelated name)
    for used in (frozenset(), frozenset(['other']), frozenset(['fact']), frozenset(['factorial']), frozenset(['fact', 'factorial']),
                 frozenset(['fact', 'other']), frozenset(['factorial', 'other'])):
        w = {'used': used}
        sel = []
        for p in paths:
            ok = True
            for g in p.guards:
                try:
                    if not guards.compile(g)(w):
                        ok = False
                        break
                except X.Unrecognised:
                    continue            # a refusal test (complex / non-integer / in scope): irrelevant for the cutoff
            if ok:
                sel.append(p)
        vals = []
        for p in sel:
            v = value(p)
            while isinstance(v, ast.IfExp):
                v = v.body if guards.compile(nf.canon(v.test))(w) else v.orelse
            if isinstance(v, ast.Subscript) and isinstance(v.slice, ast.IfExp) and lib.is_config(
                    ast.Subscript(value=v.value, slice=ast.Constant(value='x'), ctx=ast.Load())):
                sl = v.slice
                while isinstance(sl, ast.IfExp):
                    sl = sl.body if guards.compile(nf.canon(sl.test))(w) else sl.orelse
                v = ast.Subscript(value=v.value, slice=sl, ctx=ast.Load())
            vals.append(v)
        unbound = [v for v in vals if isinstance(v, ast.Name) and v.id in _local_names(fn) and v.id not in fi.params]
        if unbound and len(unbound) == len(vals):
            r.violation(construct, "when the used functions are %s the cutoff variable `%s` is never assigned on the path that reaches "
                        "perform_summation (UnboundLocalError: the student sees the generic 'could not check input' error instead of a grade)"
                        % (sorted(used), unbound[0].id), lib.loc(fi, ps), expected="config['infty_val_fact' / 'infty_val']")
            return
        keys = {nf.config_key(v) if v is not None else None for v in vals}
        if len(keys) != 1 or None in keys:
            raise AnalysisError('evaluate_sum: the cutoff handed to perform_summation is not recognised (%s)'
                                % ', '.join(short(v) if v is not None else 'none' for v in vals[:2]))
        key = keys.pop()
        v = vals[0]
        want = 'infty_val_fact' if (used & {'fact', 'factorial'}) else 'infty_val'
        if key != want:
            bad = (sorted(used), key, want)
            break
    foreign = [n for n in subjects if n != F]
    if foreign:
        n = foreign[0]
        test = short(subjects[n])
        if n == 'funcscope':
            r.violation(construct, "the factorial test `%s` searches `funcscope` - every function AVAILABLE to the expressions, which holds "
                        "fact and factorial by default - instead of the functions the sum actually USES (`%s`, third result of "
                        "get_limits_and_funcs): config['infty_val_fact'] is chosen for every sum, so sums without factorials are "
                        "truncated at the small factorial cutoff" % (test, F), lib.loc(fi, ps),
                        expected="the test applied to `%s`" % F, found='funcscope')
        elif n in fi.params:
            r.violation(construct, "the factorial test `%s` searches the parameter `%s`, not the set of functions used by the sum (`%s`, "
                        "third result of get_limits_and_funcs)" % (test, n, F), lib.loc(fi, ps), expected="the test applied to `%s`" % F, found=n)
        else:
            r.undecided(construct, 'the factorial test `%s` searches `%s`, whose relation to the used functions `%s` is not recognised'
                        % (test, n, F), lib.loc(fi, ps))
        return
    if bad:
        r.violation(construct, "when the used functions are %s the cutoff is config[%r], the property needs config[%r]: %s"
                    % (bad[0], bad[1], bad[2], 'factorials overflow long before the plain cutoff' if bad[2] == 'infty_val_fact'
                       else 'sums without factorials are truncated at the small factorial cutoff'), lib.loc(fi, ps),
                    expected="config['%s']" % bad[2], found=str(bad[1]))
    else:
        r.ok(construct, '7 Venn regions of the used-function set', lib.loc(fi, ps))


def _closure(r, idx, fi, name):
    q = fi.qualname + '.<locals>.' + name
    if not idx.has_func(q):
        raise AnalysisError('evaluate_sum: summand closure %s not found' % name)
    cl = idx.func(q)
    fn = cl.node
    if len(cl.params) != 1:
        raise AnalysisError('summand closure takes %d parameters' % len(cl.params))
    x = cl.params[0]
    where = cl.loc
    stores = X.find_stmts(fn, "varscope[summation_var] = %s" % x)
    construct = 'evaluate_sum: the summand sees the index through varscope[summation_var]'
    if not stores:
        others = [s for s in walk_own(fn) if isinstance(s, ast.Assign) and any(isinstance(t, ast.Subscript) and X.is_name(t.value, 'varscope') for t in s.targets)]
        if others:
            verdict(r, construct, nf.classify(X.spat("varscope[summation_var] = %s" % x), others[0]), lib.loc(cl, others[0]),
                    expected='varscope[summation_var] = index')
        else:
            r.violation(construct, 'the closure never stores the index into varscope[summation_var]: every term is evaluated without (or with a '
                        'stale) summation variable', where)
        return
    r.ok(construct, 'varscope[summation_var] = %s' % x, lib.loc(cl, stores[0][0]))
    ev = [c for c in walk_own(fn) if isinstance(c, ast.Call) and nf.callee_name(c) == 'evaluator']
    construct = 'evaluate_sum: the summand is evaluated with (varscope, funcscope, self.suffixes)'
    if len(ev) != 1:
        raise AnalysisError('summand closure: expected one evaluator call')
    eparams = idx.func('mitxgraders.helpers.calc.expressions.evaluator').params
    bound = dict(zip(eparams, ev[0].args))
    for k in ev[0].keywords:
        if k.arg is None:
            raise AnalysisError('evaluator called with **kwargs')
        bound[k.arg] = k.value
    want = {'formula': 'summand_str', 'variables': 'varscope', 'functions': 'funcscope', 'suffixes': 'self.suffixes'}
    probs = []
    for role, src in want.items():
        got = bound.get(role)
        if got is None:
            probs.append('%s is not passed (the default scope is used)' % role)
        elif X.m(src, got) is None:
            if any(X.m(o, got) is not None for o in want.values()) or isinstance(got, (ast.Dict, ast.Constant)):
                probs.append('%s=%s instead of %s' % (role, short(got), src))
            else:
                raise AnalysisError('evaluator argument %s=%s not recognised' % (role, short(got)))
    extra = set(bound) - set(want)
    if extra:
        raise AnalysisError('evaluator called with extra arguments %s' % sorted(extra))
    r.check(not probs, construct, 'formula / variables / functions / suffixes in their roles', '; '.join(probs) +
            ': the summand is evaluated in a different scope than the rest of the problem', lib.loc(cl, ev[0]),
            expected='evaluator(summand_str, variables=varscope, functions=funcscope, suffixes=self.suffixes)')
    r.check(X.dominates(cl, stores[0][0], ev[0]), 'evaluate_sum: the index is stored before the summand is evaluated', 'store dominates evaluator',
            'the summand can be evaluated before the index is stored', lib.loc(cl, ev[0]))
    # value returned = first element of the evaluator's result
    construct = 'evaluate_sum: the closure returns the value of the summand'
    rets = lib.returns_of(fn)
    un = X.find_stmts(fn, "_V, _W = evaluator(*__)")
    if len(rets) == 1 and un and isinstance(un[0][1]['_V'], ast.Name):
        vname, wname = un[0][1]['_V'].id, un[0][1]['_W'].id if isinstance(un[0][1]['_W'], ast.Name) else None
        if X.is_name(rets[0].value, vname):
            r.ok(construct, 'first element of evaluator(...)', lib.loc(cl, rets[0]))
        elif wname and X.is_name(rets[0].value, wname):
            r.violation(construct, 'the closure returns the usage record (second element of evaluator(...)) instead of the value', lib.loc(cl, rets[0]))
        else:
            r.undecided(construct, 'returned value not recognised', lib.loc(cl, rets[0]))
    elif len(rets) == 1 and X.m("evaluator(*__)[0]", rets[0].value) is not None:
        r.ok(construct, 'evaluator(...)[0]', lib.loc(cl, rets[0]))
    else:
        r.undecided(construct, 'return not recognised', where)
    # PAIR: the index is removed again on every normal exit
    construct = 'evaluate_sum: the index is removed from the scope after every term'
    dels = [s for s, _ in X.find_stmts(fn, "del varscope[summation_var]")] + \
           [s for s, _ in X.find_stmts(fn, "varscope.pop(summation_var)")] + [s for s, _ in X.find_stmts(fn, "varscope.pop(summation_var, None)")]
    cfg = cfg_of(fn)
    if not dels:
        outer = [s_ for pat_ in ("del varscope[summation_var]", "varscope.pop(summation_var)", "varscope.pop(summation_var, None)")
                 for s_, _ in X.find_stmts(fi.node, pat_)]
        if outer:
            tolerant = any(isinstance(s_, ast.Expr) and len(s_.value.args) == 2 for s_ in outer)
            r.violation(construct, "the index is not removed by the closure after each term but once, by `%s` after the summation: %s an "
                        "error raised by a term leaves the index in the caller's scope, so the next sum over the same scope (the student's, "
                        "after the author's) is refused as 'conflicts with another previously-defined variable'" % (
                            short(outer[0]), '' if tolerant else "when the range is empty (e.g. odd-only sum over limits enclosing no odd "
                            "integer) nothing was ever stored and the deletion raises KeyError instead of the sum being 0; also"),
                        lib.loc(fi, outer[0]), expected='del varscope[summation_var] inside the closure, after every evaluation')
        else:
            X.absent(r, construct, "varscope[summation_var] is never deleted: the author's index stays in the scope, so the student's sum with "
                     "the same variable name is refused as 'conflicts with another previously-defined variable'", where,
                     expected='del varscope[summation_var]', understood=X.only_calls([fn], {'evaluator'}))
    else:
        starts = cfg.nodes_of(stores[0][0])
        through = [n for d in dels for n in cfg.nodes_of(d)]
        r.check(cfg.must_pass(starts, through, exits='return'), construct, 'every path from the store to a return passes the deletion',
                'a path returns from the closure with the index still in varscope', lib.loc(cl, dels[0]))


# ----------------------------------------------------------------------------- D3
CALL_PATS = ["self.evaluate_sum(_W['summand'], _W['lower'], _W['upper'], _W['summation_variable'], varscope=_VS, funcscope=_FS)",
             "self.evaluate_sum(_W['summand'], _W['upper'], _W['lower'], _W['summation_variable'], varscope=_VS, funcscope=_FS)",
             "self.evaluate_sum(_W['summand'], _W['lower'], _W['upper'], _W['summation_variable'], _VS, _FS)"]


def _from_instructor_vars(fn, bl):
    """The list `bl` is built from config['instructor_vars'] (filtered loop + append, comprehension, list(...))."""
    for f in walk_own(fn):
        if isinstance(f, ast.For) and lib.is_config(f.iter, 'instructor_vars') and isinstance(f.target, ast.Name):
            if X.find_stmts(f, "%s.append(%s)" % (bl, f.target.id), own=False):
                return True
    for v in lib.assigned_value(fn, bl):
        if isinstance(v, (ast.ListComp, ast.SetComp, ast.GeneratorExp)) and len(v.generators) == 1 \
                and lib.is_config(v.generators[0].iter, 'instructor_vars') and isinstance(v.generators[0].target, ast.Name) \
                and X.is_name(v.elt, v.generators[0].target.id):
            return True
        if isinstance(v, ast.Call) and isinstance(v.func, ast.Name) and v.func.id in ('list', 'set', 'tuple') and len(v.args) == 1 \
                and (lib.is_config(v.args[0], 'instructor_vars') or (
                    isinstance(v.args[0], (ast.GeneratorExp, ast.ListComp)) and lib.is_config(v.args[0].generators[0].iter, 'instructor_vars'))):
            return True
    return False


def _blacklist_filter_escape(fn, bl, scope_names):
    """The conditions under which an entry of config['instructor_vars'] is put on the black-list `bl`. The names that must
    be removed are the listed ones that are *in the sample* (the scope the student's sum is evaluated in: numbered-variable
    instances and sibling values appear there and nowhere else), so every membership filter must test the sample / the scope
    (`var in var_samples[k]`, `var in varlist`, their .keys()/set()). Returns the source of a filter whose right-hand side,
    after following single-assigned locals, mentions neither (names in the sample but outside that set stay available to
    the student), else None. Filters that are not membership tests are left to the origin rule (not decided here)."""
    conds = []
    for f in walk_own(fn):
        if isinstance(f, ast.For) and lib.is_config(f.iter, 'instructor_vars') and isinstance(f.target, ast.Name):
            for s in f.body:
                if isinstance(s, ast.If) and X.find_stmts(s, "%s.append(%s)" % (bl, f.target.id), own=False):
                    conds.append((f.target.id, s.test))
    for v in lib.assigned_value(fn, bl):
        comp = v
        if isinstance(v, ast.Call) and isinstance(v.func, ast.Name) and v.func.id in ('list', 'set', 'tuple') and len(v.args) == 1:
            comp = v.args[0]
        if isinstance(comp, (ast.ListComp, ast.SetComp, ast.GeneratorExp)) and len(comp.generators) == 1 \
                and lib.is_config(comp.generators[0].iter, 'instructor_vars') and isinstance(comp.generators[0].target, ast.Name):
            for c in comp.generators[0].ifs:
                conds.append((comp.generators[0].target.id, c))

    def mentions(e, depth=0):
        names = {n.id for n in ast.walk(e) if isinstance(n, ast.Name)}
        if names & scope_names:
            return True
        if depth >= 3:
            return None
        res = False
        for n in names:
            for v in lib.assigned_value(fn, n):
                m = mentions(v, depth + 1)
                if m:
                    return True
                if m is None:
                    res = None
        # parameters of the function are not followed: their content is the caller's
        args = {a.arg for a in fn.args.args + fn.args.kwonlyargs}
        if names & args - {'self'}:
            return None
        return res
    for var, c in conds:
        if isinstance(c, ast.Compare) and len(c.ops) == 1 and isinstance(c.ops[0], ast.In) and X.is_name(c.left, var):
            if mentions(c.comparators[0]) is False:
                return ast.unparse(c)
    return None


def _scrub_manager(idx, fi, call):
    """If `call` sits in `with M(scope, names) [as t]:` where M is a class whose __enter__ removes the entries listed in
    its names attribute from its scope attribute, return {'with', 'scope', 'names', 'target', 'same'} (same: __enter__
    returns the very dict it scrubbed), else None."""
    orig = getattr(fi, 'original', fi)
    p_ = parent(call)
    while p_ is not None and not isinstance(p_, (ast.FunctionDef, ast.Lambda)):
        if isinstance(p_, ast.With):
            for item in p_.items:
                ce = item.context_expr
                if not isinstance(ce, ast.Call):
                    continue
                targets, how = idx.resolve_call(orig, ce)
                classes = [t[1] for t in targets if isinstance(t, tuple) and t[0] == 'class']
                if not classes:
                    continue
                init, enter = idx.lookup(classes[0], '__init__'), idx.lookup(classes[0], '__enter__')
                if init is None or enter is None:
                    continue
                try:
                    bound = X.bind_call(ce, init.params, skip_self=True)
                except AnalysisError:
                    continue
                attr_of = {}           # attribute of self -> constructor argument expression
                for st_, b_ in X.find_stmts(init.node, "self._A = _P"):
                    pass
                for n in walk_own(init.node):
                    if isinstance(n, ast.Assign) and len(n.targets) == 1 and isinstance(n.targets[0], ast.Attribute) \
                            and X.is_name(n.targets[0].value, 'self') and isinstance(n.value, ast.Name) and n.value.id in bound:
                        attr_of[n.targets[0].attr] = bound[n.value.id]
                # removal inside __enter__: self.<scope>.pop(k) / del self.<scope>[k] for k in self.<names>
                rem = None
                for n in ast.walk(enter.node):
                    tgt = None
                    if isinstance(n, ast.Call) and isinstance(n.func, ast.Attribute) and n.func.attr == 'pop' \
                            and isinstance(n.func.value, ast.Attribute) and X.is_name(n.func.value.value, 'self'):
                        tgt = n.func.value.attr
                    if isinstance(n, ast.Delete) and n.targets and isinstance(n.targets[0], ast.Subscript) \
                            and isinstance(n.targets[0].value, ast.Attribute) and X.is_name(n.targets[0].value.value, 'self'):
                        tgt = n.targets[0].value.attr
                    if tgt is not None:
                        # the iteration domain of the enclosing loop / comprehension
                        q_ = parent(n)
                        dom = None
                        while q_ is not None and q_ is not enter.node:
                            if isinstance(q_, ast.For):
                                dom = q_.iter
                                break
                            if isinstance(q_, (ast.DictComp, ast.ListComp, ast.SetComp, ast.GeneratorExp)):
                                dom = q_.generators[0].iter
                                break
                            q_ = parent(q_)
                        if isinstance(dom, ast.Attribute) and X.is_name(dom.value, 'self'):
                            rem = (tgt, dom.attr)
                if rem is None or rem[0] not in attr_of or rem[1] not in attr_of:
                    continue
                rets = lib.returns_of(enter.node)
                same = len(rets) == 1 and isinstance(rets[0].value, ast.Attribute) and X.is_name(rets[0].value.value, 'self') \
                    and rets[0].value.attr == rem[0]
                tname = item.optional_vars.id if isinstance(item.optional_vars, ast.Name) else None
                return {'with': p_, 'scope': attr_of[rem[0]], 'names': attr_of[rem[1]], 'target': tname, 'same': same,
                        'cls': classes[0].name}
        p_ = parent(p_)
    return None


def d3_author(ctx, idx):
    r = ctx.rule('D3.AUTHOR', "gen_evaluations: author's sum guarded (MITxError -> ConfigError), student's not; instructor variables "
                 "deleted in between and reloaded per sample; results in (author, student, functions) roles, also into compare_evaluations", floor=9)
    with r:
        fi = X.scalarize(idx, idx.func(SG + '.gen_evaluations'))
        fn = fi.node
        if fi.params[:5] != ['self', 'answer', 'student_input', 'var_samples', 'func_samples']:
            raise AnalysisError('gen_evaluations: signature changed: %s' % fi.params)
        KNOWN3 = {'evaluate_sum', 'copy', 'update', 'append', 'range', 'ConfigError', 'format', 'str', 'log_eval_info'}
        calls = lib.calls_named(fn, 'evaluate_sum')
        roles = {}
        for c in calls:
            b = X.any_match(CALL_PATS, c)
            if b is None:
                res = nf.classify(CALL_PATS[0], c)
                if isinstance(res, tuple):
                    r.violation('gen_evaluations: argument roles of evaluate_sum', res[1], lib.loc(fi, c), expected=CALL_PATS[0])
                else:
                    r.undecided('gen_evaluations: argument roles of evaluate_sum', 'call not recognised: %s' % short(c), lib.loc(fi, c))
                continue
            who = 'author' if X.is_name(b['_W'], 'answer') else ('student' if X.is_name(b['_W'], 'student_input') else None)
            if who is None or who in roles:
                raise AnalysisError('gen_evaluations: evaluate_sum call on %s' % short(b['_W']))
            roles[who] = (c, b)
        if set(roles) != {'author', 'student'}:
            raise AnalysisError('gen_evaluations: author and student evaluate_sum calls not both found')
        (ac, ab), (sc, sb) = roles['author'], roles['student']
        r.ok('gen_evaluations: argument roles of evaluate_sum', "summand / limits / variable of the answer and of the submission", lib.loc(fi, ac))
        mgr = _scrub_manager(idx, fi, sc)
        if mgr is not None and isinstance(sb['_VS'], ast.Name) and sb['_VS'].id == mgr['target'] and mgr['same'] \
                and isinstance(mgr['scope'], ast.Name):
            sb = dict(sb)
            sb['_VS'] = mgr['scope']          # `as` target of a manager whose __enter__ returns the dict it scrubbed
        same_scope = nf.equal(ab['_VS'], sb['_VS']) and isinstance(ab['_VS'], ast.Name) and nf.equal(ab['_FS'], sb['_FS'])
        if not same_scope:
            raise AnalysisError('gen_evaluations: the two calls use different scope objects')
        VS = ab['_VS'].id
        # ---- GUARD
        construct = "gen_evaluations: the author's sum is guarded: MITxError -> ConfigError"
        tr = lib.enclosing_try(ac)
        if tr is None:
            X.absent(r, construct, "the author's evaluate_sum call is not inside a try: errors in the stored answer reach the student as "
                     "student-facing errors", lib.loc(fi, ac), expected='except MITxError: raise ConfigError')
        else:
            cover = [h for h in tr.handlers if any(n in ('MITxError', 'Exception', 'BaseException') for n in lib.handler_class_names(h))]
            if not cover:
                names = [n for h in tr.handlers for n in lib.handler_class_names(h)]
                r.violation(construct, 'the handler covers only %s: other library errors of the stored answer (e.g. an undefined variable, '
                            'CalcError) reach the student unchanged instead of ConfigError' % names, lib.loc(fi, tr),
                            expected='except MITxError', found=', '.join(names))
            else:
                ok, classes = X.body_raises(cover[0].body)
                if not ok and not classes:
                    r.violation(construct, 'the handler does not raise on every path: a failing author sum is ignored', lib.loc(fi, cover[0]))
                else:
                    r.check(ok and classes == {'ConfigError'}, construct, 'raises ConfigError',
                            "failures of the author's sum are reported as %s instead of ConfigError" % sorted(classes), lib.loc(fi, cover[0]),
                            expected='ConfigError', found=', '.join(sorted(classes)))
        construct = "gen_evaluations: the student's sum is not recast"
        str_ = lib.enclosing_try(sc)
        r.check(str_ is None, construct, 'outside any try', "the student's evaluate_sum call sits inside a try (`except %s`): the student's own "
                "errors are turned into something else" % (', '.join(n for h in str_.handlers for n in lib.handler_class_names(h)) if str_ else ''),
                lib.loc(fi, sc))
        # ---- deletion between the calls
        construct = "gen_evaluations: instructor variables are deleted before the student's sum"
        dels = [s for s in walk_own(fn) if (isinstance(s, ast.Delete) and any(isinstance(t, ast.Subscript) and X.is_name(t.value, VS) for t in s.targets))
                or (isinstance(s, ast.Expr) and isinstance(s.value, ast.Call) and isinstance(s.value.func, ast.Attribute)
                    and s.value.func.attr == 'pop' and X.is_name(s.value.func.value, VS))]
        if not dels and mgr is not None and X.is_name(mgr['scope'], VS):
            # the deletion is done by the context manager around the student's call
            r.check(X.passes_between(fi, ac, [mgr['with']], sc), construct, '%s.__enter__ removes the names for the duration of the block'
                    % mgr['cls'], "a path reaches the student's evaluate_sum without entering the scrubbing block", lib.loc(fi, mgr['with']))
            bl = mgr['names'].id if isinstance(mgr['names'], ast.Name) else None
            if bl is not None and _from_instructor_vars(fn, bl):
                r.ok("gen_evaluations: the deleted names come from config['instructor_vars']", bl, lib.loc(fi, mgr['with']))
            elif lib.is_config(mgr['names'], 'instructor_vars'):
                r.ok("gen_evaluations: the deleted names come from config['instructor_vars']", 'instructor_vars', lib.loc(fi, mgr['with']))
            else:
                r.undecided("gen_evaluations: the deleted names come from config['instructor_vars']", 'origin of the deleted keys not recognised',
                            lib.loc(fi, mgr['with']))
        elif not dels:
            X.absent(r, construct, 'nothing is ever removed from `%s`: the student\'s summand and limits can use the instructor-only variables' % VS,
                     lib.loc(fi, sc), expected='for key in var_blacklist: del varlist[key]',
                     understood=X.only_calls([fn], KNOWN3) and not any(isinstance(x, ast.Assign) and X.is_name(x.targets[0], VS) and
                                                                      X.in_subtree(x, X.enclosing_loop(ac) or fn) for x in walk_own(fn)
                                                                      if isinstance(x, ast.Assign) and len(x.targets) == 1))
        else:
            loop = X.enclosing_loop(dels[0])
            src_ok = False
            bl = None
            if isinstance(loop, ast.For) and isinstance(loop.iter, ast.Name):
                bl = loop.iter.id
                src_ok = _from_instructor_vars(fn, bl)
            elif isinstance(loop, ast.For) and lib.is_config(loop.iter, 'instructor_vars'):
                src_ok = True
            between = X.passes_between(fi, ac, [loop if isinstance(loop, ast.For) and loop is not X.enclosing_loop(ac) else dels[0]], sc)
            r.check(between, construct, 'every path from the author\'s call to the student\'s passes the deletion',
                    "a path reaches the student's evaluate_sum without deleting the instructor variables", lib.loc(fi, dels[0]))
            esc = _blacklist_filter_escape(fn, bl, {VS, 'var_samples'}) if bl else None
            if esc:
                r.violation("gen_evaluations: the deleted names come from config['instructor_vars']",
                            "the black-list keeps only the instructor variables with `%s`, a set that is not the sample the student's sum is "
                            "evaluated in: an instructor-only name that is in the sample but not in that set (a numbered-variable "
                            "instance such as a_{1}) is never deleted and stays available to the student" % esc, lib.loc(fi, dels[0]),
                            expected='if var in var_samples[0]', found=esc)
            elif src_ok:
                r.ok("gen_evaluations: the deleted names come from config['instructor_vars']", bl or 'instructor_vars', lib.loc(fi, dels[0]))
            else:
                r.undecided("gen_evaluations: the deleted names come from config['instructor_vars']", 'origin of the deleted keys not recognised',
                            lib.loc(fi, dels[0]))
        # ---- reload per sample
        construct = "gen_evaluations: every sample is loaded into the scope before the author's sum"
        loads = [s for s, b in X.find_stmts(fn, "%s.update(var_samples[_I])" % VS)]
        main = X.enclosing_loop(ac)
        if main is None:
            raise AnalysisError('gen_evaluations: the evaluations are not inside a loop over the samples')
        if not loads:
            X.absent(r, construct, '`%s` is never updated with var_samples[i]: the sums are evaluated without the sampled variables' % VS,
                     lib.loc(fi, main), expected='%s.update(var_samples[i])' % VS, understood=X.only_calls([fn], KNOWN3))
        else:
            first = X.dominates(fi, loads, ac)
            again = X.passes_between(fi, sc, loads, ac)
            r.check(first and again, construct, 'dominates the first author call and separates a student call from the next author call',
                    "the author's sum of %s can run without the sample being loaded (instructor variables deleted for the "
                    "previous student's sum are still missing)" % ('the next sample' if first else 'a sample'), lib.loc(fi, loads[0]))
        # ---- results
        a_un = X.find_stmts(fn, "_A, _X = self.evaluate_sum(*__)")
        a_name = s_name = f_name = None
        for st, b in a_un:
            if X.in_subtree(ac, st) and isinstance(b['_A'], ast.Name):
                a_name = b['_A'].id
            if X.in_subtree(sc, st) and isinstance(b['_A'], ast.Name):
                s_name = b['_A'].id
                f_name = b['_X'].id if isinstance(b['_X'], ast.Name) else None
        if not (a_name and s_name and f_name):
            raise AnalysisError('gen_evaluations: results of the evaluate_sum calls are not bound to names')
        construct = 'gen_evaluations: values are stored and returned as (author values, student values, used functions)'
        A_al, S_al, F_al = X.aliases(fn, a_name), X.aliases(fn, s_name), X.aliases(fn, f_name)
        rets = lib.returns_of(fn)
        if len(rets) != 1 or not isinstance(rets[0].value, ast.Tuple) or len(rets[0].value.elts) != 3:
            raise AnalysisError('gen_evaluations: return value is not a 3-tuple')
        e0, e1, e2 = rets[0].value.elts
        all_app = X.find_stmts(fn, "_LIST.append(_V)")

        def holds(e):
            """'author' / 'student' / 'both' / None: whose values are appended to the list returned as e."""
            if not isinstance(e, ast.Name):
                return None
            names = X.aliases(fn, e.id)
            who = set()
            for st_, b_ in all_app:
                if isinstance(b_['_LIST'], ast.Name) and b_['_LIST'].id in names:
                    if isinstance(b_['_V'], ast.Name) and b_['_V'].id in A_al:
                        who.add('author')
                    elif isinstance(b_['_V'], ast.Name) and b_['_V'].id in S_al:
                        who.add('student')
                    else:
                        who.add('other')
            return who
        h0, h1 = holds(e0), holds(e1)
        if h0 is None or h1 is None or 'other' in (h0 | h1) or not h0 or not h1:
            r.undecided(construct, 'the returned lists are not recognised as plain accumulations of the two values', lib.loc(fi, rets[0]))
        else:
            problems = []
            if h0 != {'author'}:
                problems.append("the first returned list `%s` holds the %s values, not the author's" % (short(e0), '/'.join(sorted(h0))))
            if h1 != {'student'}:
                problems.append("the second returned list `%s` holds the %s values, not the student's" % (short(e1), '/'.join(sorted(h1))))
            if not (isinstance(e2, ast.Name) and e2.id in F_al):
                problems.append("the third returned value `%s` is not the set of functions used by the student" % short(e2))
            r.check(not problems, construct, 'append/return roles agree', '; '.join(problems) +
                    ': compare_evaluations would measure the tolerance relative to the wrong side / restrictions apply to the wrong functions',
                    lib.loc(fi, rets[0]))
        a_app = [(st_, b_) for st_, b_ in all_app if isinstance(b_['_V'], ast.Name) and b_['_V'].id in A_al]
        s_app = [(st_, b_) for st_, b_ in all_app if isinstance(b_['_V'], ast.Name) and b_['_V'].id in S_al]
        _compare_roles(r, idx)
        for lst_stmt, _ in a_app + s_app:
            if not X.in_subtree(lst_stmt, main):
                r.violation(construct, '`%s` is outside the loop over the samples: only the last sample is compared' % short(lst_stmt), lib.loc(fi, lst_stmt))


def _compare_roles(r, idx):
    """raw_check: compare_evaluations(author's values, student's values, ...) and the student's functions are returned."""
    fi = idx.func(SB + '.raw_check')
    fn = fi.node
    un = X.find_stmts(fn, "_A, _S, _F = self.gen_evaluations(*__)")
    calls = lib.calls_named(fn, 'compare_evaluations')
    construct = "raw_check: compare_evaluations receives the author's values first, the student's second"
    if len(un) != 1 or len(calls) != 1 or not all(isinstance(un[0][1][k], ast.Name) for k in ('_A', '_S', '_F')):
        r.undecided(construct, 'unpacking of gen_evaluations / the compare_evaluations call not recognised', fi.loc)
        return
    A_al = X.aliases(fn, un[0][1]['_A'].id)
    S_al = X.aliases(fn, un[0][1]['_S'].id)
    F_al = X.aliases(fn, un[0][1]['_F'].id)
    params = idx.func('mitxgraders.helpers.math_helpers.MathMixin.compare_evaluations').params
    bound = X.bind_call(calls[0], params, skip_self=True)
    a0, a1 = bound.get(params[1]), bound.get(params[2])

    def who(e):
        e = lib.inline_locals(e, fn) if e is not None else None
        if isinstance(e, ast.Name):
            return 'author' if e.id in A_al else ('student' if e.id in S_al else None)
        return None
    w0, w1 = who(a0), who(a1)
    if w0 == 'author' and w1 == 'student':
        r.ok(construct, short(calls[0], 90), lib.loc(fi, calls[0]))
    elif w0 == 'student' and w1 == 'author':
        r.violation(construct, "the student's values are passed first and the author's second: the comparer measures a percentage tolerance "
                    "relative to its first argument, so the tolerance becomes relative to the student's sum (and expected-shape checks apply "
                    "to the wrong side)", lib.loc(fi, calls[0]), expected='compare_evaluations(instructor_evals, student_evals, ...)',
                    found=short(calls[0], 80))
    elif w0 is not None and w0 == w1:
        r.violation(construct, "both compared lists are the %s's values" % w0, lib.loc(fi, calls[0]))
    else:
        r.undecided(construct, 'arguments not recognised: %s' % short(calls[0]), lib.loc(fi, calls[0]))
    construct = "raw_check: the functions used by the student are returned for the restriction checks"
    rets = lib.returns_of(fn)
    if len(rets) == 1 and isinstance(rets[0].value, ast.Tuple) and len(rets[0].value.elts) == 2:
        e = rets[0].value.elts[1]
        if isinstance(e, ast.Name) and e.id in F_al:
            r.ok(construct, '', lib.loc(fi, rets[0]))
        else:
            r.undecided(construct, 'second returned value not recognised: %s' % short(e), lib.loc(fi, rets[0]))
    else:
        r.undecided(construct, 'return not recognised', fi.loc)


# ----------------------------------------------------------------------------- D4
def d4_order(ctx, idx):
    r = ctx.rule('D4.ORDER', 'check(): count check (ConfigError) < blank fields (MissingInput) < dummy-variable validation '
                 '(InvalidInput) < check_math_response; normal forms of the helper predicates', floor=24)
    with r:
        fi = idx.func(SB + '.check')
        fn = fi.node
        if fi.params[:3] != ['self', 'answers', 'student_input']:
            raise AnalysisError('check: signature changed: %s' % fi.params)
        c1 = lib.one_call(fi, 'structure_and_validate_input')
        c4 = lib.one_call(fi, 'check_math_response')
        c3s = lib.calls_named(fn, 'validate_user_dummy_variable')
        st1 = lib.enclosing_stmt(c1)
        if not (isinstance(st1, ast.Assign) and len(st1.targets) == 1 and isinstance(st1.targets[0], ast.Name)):
            raise AnalysisError('check: result of structure_and_validate_input is not bound to a name')
        SI = st1.targets[0].id
        construct = 'check: the input count is validated before grading'
        arg1 = lib.inline_locals(c1.args[0], fn) if len(c1.args) == 1 and not c1.keywords else None
        if isinstance(arg1, ast.Name) and arg1.id != 'student_input':
            # a working copy of the submission: every binding of the name derives from student_input or from itself
            defs_ = [x for x in walk_own(fn) if isinstance(x, ast.Assign) and any(X.is_name(t_, arg1.id) for t_ in x.targets)]
            if defs_ and all(X.names_loaded(x.value) - {'list', 'tuple'} <= {'student_input', arg1.id} for x in defs_) \
                    and any(X.mentions(x.value, 'student_input') for x in defs_):
                arg1 = ast.Name(id='student_input', ctx=ast.Load())
        if arg1 is None or not X.mentions(arg1, 'student_input'):
            r.undecided(construct, 'argument of structure_and_validate_input not recognised: %s' % short(c1), lib.loc(fi, c1))
        else:
            r.check(X.dominates(fi, c1, c4), construct, 'structure_and_validate_input(<the submission>) dominates check_math_response',
                    'a path reaches check_math_response without passing structure_and_validate_input', lib.loc(fi, c1))
        # blank loop
        construct = 'check: blank fields raise MissingInput before grading'
        loops = [l for l in walk_own(fn) if isinstance(l, ast.For) and X.mentions(l.iter, SI)]
        blank = None        # (anchor statement, element expressions, test on the element, raising If)
        for l in loops:
            for s_ in ast.walk(l):
                if isinstance(s_, ast.If) and any(isinstance(x, ast.Raise) for x in ast.walk(s_)):
                    blank = (l, _element_exprs(l, SI), s_.test, s_)
        if blank is None:
            for g_owner in [n for n in walk_own(fn) if isinstance(n, (ast.GeneratorExp, ast.ListComp)) and len(n.generators) == 1
                            and X.mentions(n.generators[0].iter, SI)]:
                g = g_owner.generators[0]
                call = parent(g_owner)
                if isinstance(call, ast.Assign) and len(call.targets) == 1 and isinstance(call.targets[0], ast.Name) and call.value is g_owner:
                    # the generator is bound to a local first: `blanks = (...)`, `first = next(blanks, None)`
                    users = [c for c in walk_own(fn) if isinstance(c, ast.Call) and isinstance(c.func, ast.Name) and c.func.id in ('next', 'any')
                             and c.args and X.is_name(c.args[0], call.targets[0].id)]
                    reads = [n for n in walk_own(fn) if isinstance(n, ast.Name) and n.id == call.targets[0].id and isinstance(n.ctx, ast.Load)]
                    call = users[0] if len(users) == 1 and len(reads) == 1 and isinstance(g_owner, ast.GeneratorExp) else None
                if not (isinstance(call, ast.Call) and isinstance(call.func, ast.Name) and call.func.id in ('next', 'any')):
                    continue
                elem = _element_exprs(g, SI)
                if call.func.id == 'any' and not g.ifs:
                    ifs_ = [i for i in walk_own(fn) if isinstance(i, ast.If) and X.in_subtree(call, i.test)
                            and nf.canon(i.test) is not None and isinstance(nf.canon(i.test), ast.Call)]
                    if ifs_:
                        blank = (ifs_[0], elem, g_owner.elt, ifs_[0])
                elif call.func.id == 'next' and len(g.ifs) == 1 and len(call.args) == 2 and isinstance(call.args[1], ast.Constant) \
                        and call.args[1].value is None:
                    st_ = lib.enclosing_stmt(call)
                    if isinstance(st_, ast.Assign) and len(st_.targets) == 1 and isinstance(st_.targets[0], ast.Name) and st_.value is call:
                        B = st_.targets[0].id
                        ifs_ = [i for i in walk_own(fn) if isinstance(i, ast.If) and X.truth_test(i.test, B) > 0]
                        if ifs_:
                            blank = (ifs_[0], elem, g.ifs[0], ifs_[0])
        if blank is None:
            X.absent(r, construct, 'no loop over the structured input raises for empty fields: a blank limit or summand reaches the parser and '
                     'a blank variable name crashes is_valid_variable_name', fi.loc, expected="if structured_input[key] == '': raise MissingInput",
                     understood=X.only_calls([fn], {'isinstance', 'structure_and_validate_input', 'validate_user_dummy_variable',
                                                    'check_math_response', 'IntegrationError', 'format', 'str'}))
        else:
            l, elem, test_, s = blank
            t = nf.canon(test_)
            kind = None
            if isinstance(t, ast.Compare) and len(t.ops) == 1 and isinstance(t.ops[0], (ast.Eq, ast.Is)) and \
                    any(nf.equal(t.left, e) for e in elem) and isinstance(t.comparators[0], ast.Constant):
                kind = 'ok' if (t.comparators[0].value == '' and isinstance(t.ops[0], ast.Eq)) else 'const'
            elif isinstance(t, ast.UnaryOp) and isinstance(t.op, ast.Not) and any(nf.equal(t.operand, e) for e in elem):
                kind = 'ok'
            elif isinstance(t, ast.Compare) and len(t.ops) == 1 and isinstance(t.ops[0], (ast.NotEq, ast.IsNot)) and \
                    any(nf.equal(t.left, e) for e in elem) and isinstance(t.comparators[0], ast.Constant) and t.comparators[0].value == '':
                kind = 'inverted'
            if kind == 'ok':
                r.ok(construct + ' [test]', short(test_), lib.loc(fi, s))
            elif kind == 'const':
                r.violation(construct + ' [test]', "the field is compared with %r instead of '': edX sends blank fields as empty strings, so they are "
                            "no longer refused" % (t.comparators[0].value,), lib.loc(fi, s), expected="== ''", found=short(test_))
            elif kind == 'inverted':
                r.violation(construct + ' [test]', 'the test is inverted: every filled field raises', lib.loc(fi, s), expected="== ''", found=short(test_))
            else:
                r.undecided(construct + ' [test]', 'blank test not recognised: %s' % short(test_), lib.loc(fi, s))
            ok, classes = X.body_raises(s.body)
            r.check(ok and classes == {'MissingInput'}, construct + ' [class]', 'raises MissingInput',
                    'blank fields raise %s instead of MissingInput' % (sorted(classes) or 'nothing'), lib.loc(fi, s), expected='MissingInput')
            exits = [e for e in lib.loop_has_early_exit(l) if not isinstance(e, ast.Raise)] if isinstance(l, ast.For) else []
            r.check(not exits, construct + ' [every field]', 'every field is visited', 'the loop over the fields can stop early (`%s`)' %
                    (short(exits[0]) if exits else ''), lib.loc(fi, l))
            r.check(X.dominates(fi, l, c4), construct + ' [before grading]', 'dominates check_math_response',
                    'check_math_response can run before the blank-field check', lib.loc(fi, l))
        # dummy variable
        construct = 'check: the dummy variable is validated before grading'
        if not c3s:
            X.absent(r, construct, 'validate_user_dummy_variable is never called: a summation variable that already has a meaning (pi, a function '
                     'name) or is ill-formed is accepted', fi.loc,
                     understood=X.only_calls([fn], {'isinstance', 'structure_and_validate_input', 'check_math_response', 'IntegrationError',
                                                    'MissingInput', 'format', 'str', 'next', 'any'}))
        else:
            c3 = c3s[0]
            arg3 = _inline_except(c3.args[0], fn, {SI}) if len(c3.args) == 1 and not c3.keywords else None
            argok = arg3 is not None and X.any_match(["%s[self.wording['adjective'] + '_variable']" % SI,
                                                      "%s['%%s_variable' %% self.wording['adjective']]" % SI,
                                                      "%s['{}_variable'.format(self.wording['adjective'])]" % SI], arg3) is not None
            if not argok:
                r.undecided(construct, 'validated value not recognised: %s' % short(c3), lib.loc(fi, c3))
            else:
                r.check(X.dominates(fi, c3, c4), construct, 'dominates check_math_response',
                        'a path reaches check_math_response without passing validate_user_dummy_variable(<entered variable>)', lib.loc(fi, c3))
            if blank is not None:
                r.check(X.dominates(fi, blank[0], c3), 'check: blank fields are refused before the dummy-variable validation',
                        'blank loop dominates validate_user_dummy_variable',
                        "validate_user_dummy_variable runs before the blank-field check: a blank variable name makes is_valid_variable_name "
                        "fail with IndexError (front[0] of '') instead of MissingInput", lib.loc(fi, c3))
        # the error translation around the computation must not swallow the error
        tr = lib.enclosing_try(c4)
        if tr is not None:
            for h in tr.handlers:
                ok, classes = X.body_raises(h.body)
                names_ = lib.handler_class_names(h)
                if ok:
                    r.ok('check: errors of the computation are re-raised (except %s)' % '/'.join(names_), 'raises %s' % sorted(classes), lib.loc(fi, h))
                elif not any(isinstance(x, ast.Return) and x.value is not None for s_ in h.body for x in ast.walk(s_)):
                    r.violation('check: errors of the computation are re-raised (except %s)' % '/'.join(names_),
                                'a path through the handler neither raises nor returns a result: the error is swallowed and check() returns '
                                'None instead of a grading result', lib.loc(fi, h), expected='raise %s(...)' % names_[0])
                else:
                    r.undecided('check: errors of the computation are re-raised (except %s)' % '/'.join(names_), 'handler returns a value', lib.loc(fi, h))
        _helpers(r, idx)


def _element_exprs(loop, SI):
    """Expressions denoting the current field inside a loop over the structured input."""
    out = []
    if isinstance(loop.target, ast.Name) and X.is_name(loop.iter, SI):
        out.append(nf.pat("%s[%s]" % (SI, loop.target.id)))
    if isinstance(loop.iter, ast.Call) and isinstance(loop.iter.func, ast.Attribute) and X.is_name(loop.iter.func.value, SI):
        if loop.iter.func.attr == 'items' and isinstance(loop.target, ast.Tuple) and len(loop.target.elts) == 2 \
                and all(isinstance(e, ast.Name) for e in loop.target.elts):
            out.append(nf.pat(loop.target.elts[1].id))
            out.append(nf.pat("%s[%s]" % (SI, loop.target.elts[0].id)))
        if loop.iter.func.attr == 'values' and isinstance(loop.target, ast.Name):
            out.append(nf.pat(loop.target.id))
        if loop.iter.func.attr == 'keys' and isinstance(loop.target, ast.Name):
            out.append(nf.pat("%s[%s]" % (SI, loop.target.id)))
    return out


def _inline_except(expr, fn, keep):
    """lib.inline_locals, but the locals named in `keep` stay as names."""
    env = {k: v for k, v in lib.local_env(fn).items() if k not in keep}
    cur = expr
    for _ in range(4):
        new = nf.subst(cur, env)
        if ast.dump(new) == ast.dump(cur):
            break
        cur = new
    return cur


def _helpers(r, idx):
    # structure_and_validate_input
    fi = X.settled(idx.func(SB + '.structure_and_validate_input'))
    fn = fi.node
    construct = 'structure_and_validate_input: a wrong number of inputs raises ConfigError'
    tcall = lib.calls_named(fn, 'transform_list_to_dict')
    UI_PATS = ["[_K for _K in self.true_input_positions if self.true_input_positions[_K] is not None]",
               "[_K for _K in self.true_input_positions if not self.true_input_positions[_K] is None]"]
    ui_names = [s_.targets[0].id for s_ in walk_own(fn) if isinstance(s_, ast.Assign) and len(s_.targets) == 1 and isinstance(s_.targets[0], ast.Name)
                and X.any_match(UI_PATS, s_.value) is not None]

    def count_term(e):
        """len(student_input) -> the surplus of inputs d in {-1, 0, +1}; len(<expected fields>) -> 0."""
        if X.m("len(student_input)", e) is not None:
            return lambda w: w['d']
        if any(X.m("len(%s)" % n_, e) is not None for n_ in ui_names) or X.any_match(["len(%s)" % p_ for p_ in UI_PATS], e) is not None:
            return lambda w: 0
        return None
    guards = X.Guards(lambda e: None, count_term)
    try:
        paths = nf.decision_paths(fn.body, keep_locals=tuple(ui_names))
        outcome = {}
        for d in (-1, 0, 1):
            sel = [p_ for p_ in paths if all(guards.compile(g)({'d': d}) for g in p_.guards)]
            if len(sel) != 1:
                raise X.Unrecognised('paths not exclusive')
            outcome[d] = sel[0]
    except (X.Unrecognised, AnalysisError):
        outcome = None
    if outcome is None or not ui_names:
        r.undecided(construct, 'the function is not read as a decision over len(<expected fields>) against len(student_input)', fi.loc)
    else:
        wrong = [outcome[-1], outcome[1]]
        passes = [('too few' if d < 0 else 'too many') for d in (-1, 1) if outcome[d].leaf.kind != 'raise']
        where = lib.loc(fi, wrong[0].leaf.stmt) if wrong[0].leaf.stmt is not None else fi.loc
        if passes:
            r.violation(construct, '%s inputs are not refused: the function goes on to index the list of inputs (too few would index past the '
                        'list)' % ' and '.join(passes), where, expected='len(used_inputs) != len(student_input): raise ConfigError')
        elif outcome[0].leaf.kind == 'raise':
            r.violation(construct, 'the right number of inputs is refused as well', where)
        else:
            r.ok(construct, 'decided for fewer / as many / more inputs than expected fields', where)
        classes = {nf.exc_class_name(p_.leaf.expr) for p_ in wrong if p_.leaf.kind == 'raise'}
        if classes:
            r.check(classes == {'ConfigError'}, construct + ' [class]', 'ConfigError', 'raises %s' % sorted(c or '?' for c in classes), where)
        if tcall:
            early = [p_ for p_ in wrong if p_.leaf.kind == 'raise' and any(
                isinstance(c, ast.Call) and nf.callee_name(c) == 'transform_list_to_dict' for e_ in [p_.leaf.expr] + [v for v in p_.leaf.env.values()]
                if e_ is not None for c in ast.walk(e_))]
            r.check(not early, construct + ' [before structuring]', 'the refusal does not depend on the structured input',
                    'the inputs are indexed before the count is checked', where)
    if tcall:
        verdict(r, 'structure_and_validate_input: inputs are mapped with the validated positions',
                nf.classify("transform_list_to_dict(student_input, self.config['answers'], self.true_input_positions)", lib.inline_locals(tcall[0], fn)),
                lib.loc(fi, tcall[0]), expected="transform_list_to_dict(student_input, self.config['answers'], self.true_input_positions)")
    if ui_names:
        r.ok('structure_and_validate_input: expected fields = positions that are not None', ui_names[0], fi.loc)
    else:
        r.undecided('structure_and_validate_input: expected fields = positions that are not None', 'definition of the expected fields not recognised', fi.loc)
    # transform_list_to_dict
    fi = idx.func('mitxgraders.formulagrader.integralgrader.transform_list_to_dict')
    rets = lib.returns_of(fi.node)
    pat_t = "{_K: thelist[key_to_index_map[_K]] if key_to_index_map[_K] is not None else thedefaults[_K] for _K in key_to_index_map}"
    if len(rets) == 1:
        verdict(r, 'transform_list_to_dict: entered value where a position is given, the author\'s default otherwise',
                nf.classify(pat_t, lib.inline_locals(rets[0].value, fi.node)), lib.loc(fi, rets[0]), expected=pat_t)
    else:
        r.undecided('transform_list_to_dict', 'return not recognised', fi.loc)
    # validate_user_dummy_variable
    fi = idx.func(SB + '.validate_user_dummy_variable')
    ifs = [s for s in walk_own(fi.node) if isinstance(s, ast.If)]
    taken = [s for s in ifs if any(isinstance(c, ast.Compare) and isinstance(c.ops[0], (ast.In, ast.NotIn)) for c in ast.walk(s.test))]
    construct = 'validate_user_dummy_variable: a name that already has a meaning raises InvalidInput'
    SCOPES = ('functions', 'random_funcs', 'constants')

    def members(e, w, depth=0):
        """Is `varname` in the collection denoted by e, given in which of the three scopes it lives?"""
        if depth > 6:
            raise X.Unrecognised('collection too deep')
        if isinstance(e, ast.Attribute) and X.is_name(e.value, 'self') and e.attr in SCOPES:
            return w[e.attr]
        if isinstance(e, ast.Call) and isinstance(e.func, ast.Name) and e.func.id in ('set', 'list', 'tuple', 'frozenset', 'sorted') and len(e.args) <= 1:
            return members(e.args[0], w, depth + 1) if e.args else False
        if isinstance(e, ast.Call) and isinstance(e.func, ast.Attribute) and e.func.attr == 'keys' and not e.args:
            return members(e.func.value, w, depth + 1)
        if isinstance(e, ast.Call) and isinstance(e.func, ast.Attribute) and e.func.attr == 'union':
            return members(e.func.value, w, depth + 1) or any(members(a, w, depth + 1) for a in e.args)
        if isinstance(e, ast.Call) and nf.callee_name(e) == 'chain':
            return any(members(a, w, depth + 1) for a in e.args)
        if isinstance(e, ast.BinOp) and isinstance(e.op, (ast.BitOr, ast.Add)):
            return members(e.left, w, depth + 1) or members(e.right, w, depth + 1)
        if isinstance(e, (ast.Set, ast.List, ast.Tuple)) and not e.elts:
            return False
        if isinstance(e, ast.Dict) and all(k is None for k in e.keys):
            return any(members(v, w, depth + 1) for v in e.values)
        raise X.Unrecognised('collection `%s` not recognised' % short(e))

    def atom(e):
        if isinstance(e, ast.Compare) and len(e.ops) == 1 and isinstance(e.ops[0], (ast.In, ast.NotIn)) and X.is_name(e.left, 'varname'):
            coll = e.comparators[0]
            pos = isinstance(e.ops[0], ast.In)
            return lambda w, coll=coll, pos=pos: members(coll, w) == pos
        return None
    if not taken:
        X.absent(r, construct, 'no membership test exists: functions and constants can be used as summation variable', fi.loc,
                 understood=X.only_calls([fi.node], {'is_valid_variable_name', 'InvalidInput', 'format', 'title'}))
    else:
        st = taken[0]
        test = nf.canon(lib.inline_locals(st.test, fi.node))
        guards = X.Guards(atom)
        try:
            f = guards.compile(test)
            bad = None
            for w in X.worlds({k: [False, True] for k in SCOPES}):
                if bool(f(w)) != any(w.values()):
                    bad = w
                    break
        except X.Unrecognised as e_:
            r.undecided(construct, str(e_), lib.loc(fi, st))
            bad = 'skip'
        if bad is None:
            r.ok(construct, 'refused exactly when the name is a function, a random function or a constant', lib.loc(fi, st))
        elif bad != 'skip':
            where_ = [k for k in SCOPES if bad[k]]
            r.violation(construct, 'a name that is %s is %s: %s' % (
                'only in self.' + ' / self.'.join(where_) if where_ else 'in none of the three scopes',
                'accepted as dummy variable' if where_ else 'refused',
                'it shadows and then deletes that meaning while the sum is evaluated' if where_ else 'every fresh name is refused'),
                lib.loc(fi, st), expected='varname in self.functions or varname in self.random_funcs or varname in self.constants',
                found=short(st.test))
        ok, classes = X.body_raises(st.body)
        r.check(ok and classes == {'InvalidInput'}, construct + ' [class]', 'InvalidInput', 'raises %s' % (sorted(classes) or 'nothing'), lib.loc(fi, st))
    wf = [s for s in ifs if any(isinstance(c, ast.Call) and nf.callee_name(c) == 'is_valid_variable_name' for c in ast.walk(s.test))]
    construct = 'validate_user_dummy_variable: an ill-formed name raises InvalidInput'
    if not wf:
        X.absent(r, construct, 'is_valid_variable_name is never consulted', fi.loc, understood=False)
    else:
        st = wf[0]
        verdict(r, construct, nf.classify("not is_valid_variable_name(varname)", st.test), lib.loc(fi, st), expected='not is_valid_variable_name(varname)')
        ok, classes = X.body_raises(st.body)
        r.check(ok and classes == {'InvalidInput'}, construct + ' [class]', 'InvalidInput', 'raises %s' % (sorted(classes) or 'nothing'), lib.loc(fi, st))
    # validate_input_positions
    fi = X.settled(idx.func(SB + '.validate_input_positions'))
    fn = fi.node
    lst = X.find_stmts(fn, "_L = [input_positions[_K] for _K in input_positions if input_positions[_K] is not None]")
    if len(lst) != 1 or not isinstance(lst[0][1]['_L'], ast.Name):
        raise AnalysisError('validate_input_positions: list of used positions not recognised')
    Ln = lst[0][1]['_L'].id
    sets = X.find_stmts(fn, "_S = set(%s)" % Ln)
    if len(sets) != 1 or not isinstance(sets[0][1]['_S'], ast.Name):
        raise AnalysisError('validate_input_positions: set of used positions not recognised')
    Sn = sets[0][1]['_S'].id
    ifs = [s for s in walk_own(fn) if isinstance(s, ast.If)]
    ifs = [ast.If(test=_inline_except(s_.test, fn, {Ln, Sn}), body=s_.body, orelse=s_.orelse, lineno=s_.lineno) for s_ in ifs]
    consec = [s for s in ifs if any(isinstance(c, ast.Call) and nf.callee_name(c) == 'range' for c in ast.walk(s.test))]
    construct = 'validate_input_positions: positions must be 1..n without gaps'
    set_based = False
    if not consec:
        X.absent(r, construct, 'no test against range(1, n+1) exists: positions with gaps index past the list of inputs', fi.loc, understood=False)
    else:
        st = consec[0]
        t = nf.canon(st.test)
        rc = [c for c in ast.walk(t) if isinstance(c, ast.Call) and nf.callee_name(c) == 'range'][0]
        start = rc.args[0] if len(rc.args) >= 2 else ast.Constant(value=0)
        stop = rc.args[1] if len(rc.args) >= 2 else (rc.args[0] if rc.args else None)
        whole = any(X.m(ptn % {'S': Sn, 'R': rr}, t) is not None for rr in ("set(range(_A, _B))", "set(range(_B))")
                    for ptn in ("%(S)s != %(R)s", "%(S)s ^ %(R)s", "%(R)s ^ %(S)s", "%(S)s.symmetric_difference(%(R)s)",
                                "%(R)s.symmetric_difference(%(S)s)", "not %(S)s == %(R)s"))
        if not whole or stop is None or len(rc.args) > 2:
            r.undecided(construct, 'test not recognised: %s' % short(st.test), lib.loc(fi, st))
        else:
            set_based = True
            sok = isinstance(start, ast.Constant) and start.value == 1
            eres = nf.classify(["len(%s) + 1" % Sn, "len(%s) + 1" % Ln], stop)
            if sok and eres == nf.MATCH:
                r.ok(construct, short(st.test), lib.loc(fi, st))
            else:
                r.violation(construct, 'the reference set is `%s`, not range(1, n + 1): %s' % (
                    short(rc), 'positions are compared with 0..n-1, so the documented 1-based positions are rejected' if not sok
                    else 'the last position is not part of the reference set'), lib.loc(fi, st), expected='set(range(1, len(used) + 1))', found=short(rc))
            ok, classes = X.body_raises(st.body)
            r.check(ok and classes == {'ConfigError'}, construct + ' [class]', 'ConfigError', 'raises %s' % (sorted(classes) or 'nothing'), lib.loc(fi, st))
    construct = 'validate_input_positions: repeated positions raise ConfigError'
    dup = [s for s in ifs if X.mentions(s.test, Ln) and X.mentions(s.test, Sn) and s not in consec]
    if not dup:
        if set_based:
            X.absent(r, construct, 'no comparison of the number of positions with the number of distinct positions exists (the set-based gap test '
                     'cannot see duplicates): two fields read the same input box', fi.loc, expected='len(list) > len(set)',
                     understood=X.only_calls([fn], {'set', 'len', 'range', 'ConfigError'}))
        else:
            r.undecided(construct, 'duplicate test not found', fi.loc)
    else:
        st = dup[0]
        verdict(r, construct, nf.classify(["len(%s) < len(%s)" % (Sn, Ln), "len(%s) != len(%s)" % (Sn, Ln)], st.test), lib.loc(fi, st),
                expected='len(list) > len(set)')
        ok, classes = X.body_raises(st.body)
        r.check(ok and classes == {'ConfigError'}, construct + ' [class]', 'ConfigError', 'raises %s' % (sorted(classes) or 'nothing'), lib.loc(fi, st))
    rets = lib.returns_of(fn)
    pat_r = "{_K: input_positions[_K] - 1 if input_positions[_K] is not None else None for _K in input_positions}"
    if len(rets) == 1:
        verdict(r, 'validate_input_positions: 1-based positions become 0-based indices', nf.classify(pat_r, rets[0].value), lib.loc(fi, rets[0]),
                expected=pat_r, why='positions are used as list indices by transform_list_to_dict')
    else:
        r.undecided('validate_input_positions: return', 'not recognised', fi.loc)
    init = idx.func(SB + '.__init__')
    hits = X.find_stmts(init.node, "self.true_input_positions = self.validate_input_positions(self.config['input_positions'])")
    r.check(bool(hits), 'SummationGraderBase.__init__: true_input_positions', 'validated 0-based positions are stored',
            "the constructor no longer stores validate_input_positions(config['input_positions']) in true_input_positions", init.loc)


# ----------------------------------------------------------------------------- D5
SHARED_SOURCES = {'parse', 'evaluator'}      # parse() hands out the process-wide cached MathExpression; evaluator()'s usage
                                             # record carries that object's own sets (EvalMetaData(functions_used=self.functions_used))


def _shared(fe, e, summaries, stack=()):
    """May the value of e be (part of) an object owned by the parser cache?  Copy idioms cut the relation."""
    from ..effects import COPY_FUNCS, COPY_METHODS
    if isinstance(e, ast.Call):
        name = nf.callee_name(e)
        if name in SHARED_SOURCES:
            return True
        if name in summaries:
            return summaries[name]
        return False                      # other calls (incl. set(), .union(), .copy()) return fresh objects
    if isinstance(e, (ast.Attribute, ast.Subscript, ast.Starred)):
        return _shared(fe, e.value, summaries, stack)
    if isinstance(e, (ast.Tuple, ast.List)):
        return any(_shared(fe, x, summaries, stack) for x in e.elts)
    if isinstance(e, ast.IfExp):
        return _shared(fe, e.body, summaries, stack) or _shared(fe, e.orelse, summaries, stack)
    if isinstance(e, ast.BoolOp):
        return any(_shared(fe, x, summaries, stack) for x in e.values)
    if isinstance(e, ast.Name):
        if e.id in stack:
            return False
        if e.id in summaries.get('$names', {}):
            return summaries['$names'][e.id]
        return any(_shared(fe, v, summaries, stack + (e.id,)) for kind, v in fe.assignments.get(e.id, []))
    return False


def d5_pure(ctx, idx):
    r = ctx.rule('D5.PURE', "the sum's value and restrictions depend only on the current submission: nothing obtained from parse() / "
                 "evaluator() (the process-wide parser cache) is modified in place", floor=4)
    with r:
        from ..effects import FunctionEffects
        glf = idx.func(SB + '.get_limits_and_funcs')
        fe0 = FunctionEffects(glf, idx)
        rets = lib.returns_of(glf.node)
        # which positions of the returned tuple are parser-owned (numbers are immutable, only containers matter)
        positions = None
        if len(rets) == 1 and isinstance(rets[0].value, ast.Tuple):
            positions = [_shared(fe0, x, {}) and i == 2 for i, x in enumerate(rets[0].value.elts)]
        for q in (SB + '.get_limits_and_funcs', SG + '.evaluate_sum', SG + '.gen_evaluations', SB + '.raw_check'):
            fi = idx.func(q)
            fe = FunctionEffects(fi, idx)
            names = {}
            for st_, b_ in X.find_stmts(fi.node, "_T = self.get_limits_and_funcs(*__)"):
                t = st_.targets[0]
                if isinstance(t, ast.Tuple) and positions is not None and len(t.elts) == len(positions):
                    for el, sh in zip(t.elts, positions):
                        if isinstance(el, ast.Name):
                            names[el.id] = sh
            summaries = {'get_limits_and_funcs': bool(positions and any(positions)), '$names': names}
            bad = [m for m in fe.direct_mutations() if _shared(fe, m.target, summaries)]
            name = q.split('.')[-1]
            construct = '%s: no in-place modification of parser-owned objects' % name
            if bad:
                m = bad[0]
                r.violation(construct, "`%s` modifies `%s` in place (%s); that object comes from parse()/evaluator(), i.e. it belongs to the "
                            "MathExpression kept in the parser cache: the functions of this submission's limits stay attached to the cached "
                            "expression, so later calls with the same summand see a stale used-function set (factorial cut-off 80 instead of "
                            "the configured one, whitelist/blacklist/required-function checks on functions the student never typed)"
                            % (short(lib.enclosing_stmt(m.node) or m.node, 80), short(m.target), m.how), lib.loc(fi, m.node),
                            expected='a fresh set, e.g. a.union(b, c)')
            else:
                r.ok(construct, '%d mutation sites, none on a parser-owned object' % len(fe.direct_mutations()), fi.loc)
        if positions and any(positions):
            r.note('get_limits_and_funcs returns a parser-owned set of used functions; callers are checked against that')


# ------------------------------------------------------------------------ self-test
_W5I_CONST = ('# default changed to 1e-12\n        })\n', "# default changed to 1e-12\n        })\n\n    factorial_functions = frozenset(['fact', 'factorial'])\n")
_W5I_LIMITS = ("        # Check to ensure that sum limits are not complex.\n        if isinstance(lower, complex) or isinstance(upper, complex):\n            raise SummationError('Summation limits must be real but have evaluated '\n                                 'to complex numbers.')\n\n        # Check to ensure that sum limits are integers or infinite\n        if abs(lower) != float('inf') and int(lower) != lower:\n            raise SummationError('Lower summation limit does not evaluate to an integer.')\n        if abs(upper) != float('inf') and int(upper) != upper:\n            raise SummationError('Upper summation limit does not evaluate to an integer.')\n\n", '        self.validate_limits(lower, upper)\n\n')
_W5I_CUTOFF = ("        # Check if used_funcs includes a factorial function\n        if 'fact' in used_funcs or 'factorial' in used_funcs:\n            infty_val = self.config['infty_val_fact']\n        else:\n            infty_val = self.config['infty_val']\n\n        # Compute the sum\n        result = self.perform_summation(eval_summand, lower, upper, self.config['even_odd'], infty_val)\n        \n",
               "        # Compute the sum\n        result = self.perform_summation(eval_summand, lower, upper,\n                                        self.config['even_odd'],\n                                        self.infinity_cutoff(%s))\n\n")
_W5I_METHODS = ('    @staticmethod\n    def perform_summation(eval_summand, lower, upper, even_odd, infty_val=1e3):\n', '    @staticmethod\n    def validate_limits(lower, upper):\n        """\n        Ensure that the evaluated limits of a sum are real, and are either\n        integers or infinite. Raises SummationError otherwise.\n        """\n        limits = ((\'Lower\', lower), (\'Upper\', upper))\n\n        # Check to ensure that sum limits are not complex.\n        if any(isinstance(value, complex) for _, value in limits):\n            raise SummationError(\'Summation limits must be real but have evaluated \'\n                                 \'to complex numbers.\')\n\n        # Check to ensure that sum limits are integers or infinite\n        for name, value in limits:\n            if abs(value) == float(\'inf\'):\n                continue\n            if int(value) != value:\n                msg = \'{} summation limit does not evaluate to an integer.\'\n                raise SummationError(msg.format(name))\n\n    def infinity_cutoff(self, funcs):\n        """\n        Returns the number that stands in for infinity in the limits of a sum\n        that makes use of the functions named in funcs. Factorials grow so\n        quickly that they need a much smaller cutoff than everything else.\n        """\n        if self.factorial_functions.isdisjoint(funcs):\n            return self.config[\'infty_val\']\n        return self.config[\'infty_val_fact\']\n\n    @staticmethod\n    def perform_summation(eval_summand, lower, upper, even_odd, infty_val=1e3):\n')

_W5R_STEP = [('        # Handle even/odd numbers only\n        if even_odd == 1:\n            # Odd numbers only\n            delta = 2\n            if abs(lower % 2) != 1:\n                lower += 1\n        elif even_odd == 2:\n            # Even numbers only\n            delta = 2\n            if abs(lower % 2) != 0:\n                lower += 1\n        else:\n            delta = 1\n\n', '        lower, delta = SumGrader._first_index_and_step(lower, even_odd)\n\n'), ('    @staticmethod\n    def perform_summation(eval_summand, lower, upper, even_odd, infty_val=1e3):\n', '    @staticmethod\n    def _first_index_and_step(first, even_odd):\n        for setting, remainder in ((1, 1), (2, 0)):\n            if even_odd == setting:\n                if abs(first % 2) != remainder:\n                    first += 1\n                return first, 2\n        return first, 1\n\n    @staticmethod\n    def perform_summation(eval_summand, lower, upper, even_odd, infty_val=1e3):\n')]
_W5R_COUNT = ('        used_inputs = [key for key in self.true_input_positions\n                       if self.true_input_positions[key] is not None]\n        if len(used_inputs) != len(student_input):\n            # This is a ConfigError because it should only be trigged if author\n            # included wrong number of inputs in the <customresponse> problem.\n            sorted_inputs = sorted(used_inputs, key=lambda x: self.true_input_positions[x])\n            msg = ("Expected {expected} student inputs but found {found}. "\n                   "Inputs should  appear in order {order}.")\n            raise ConfigError(msg.format(expected=len(used_inputs),\n                                         found=len(student_input),\n                                         order=sorted_inputs)\n                              )\n\n        structured_input = transform_list_to_dict(student_input,\n                                                  self.config[\'answers\'],\n                                                  self.true_input_positions)\n\n        return structured_input\n\n', "        positions = self.true_input_positions\n        used_inputs = [key for key, position in positions.items() if position is not None]\n        if len(used_inputs) == len(student_input):\n            return transform_list_to_dict(student_input, self.config['answers'], positions)\n        msg = 'Expected {expected} student inputs but found {found}.'\n        raise ConfigError(msg.format(expected=len(used_inputs), found=len(student_input)))\n\n")
_W5R_BLANK = ('        for key in structured_input:\n            if structured_input[key] == \'\':\n                msg = "Please enter a value for {key}, it cannot be empty."\n                raise MissingInput(msg.format(key=key))\n', '        blank_keys = (key for key, value in structured_input.items() if value == \'\')\n        first_blank = next(blank_keys, None)\n        if first_blank is not None:\n            msg = "Please enter a value for {key}, it cannot be empty."\n            raise MissingInput(msg.format(key=first_blank))\n')

_W6_BODY = ("        # Sort the limits\n        if lower > upper:\n            lower, upper = upper, lower\n            \n        # Handle infinities\n        if lower == -float('inf'):\n            lower = -infty_val\n        if upper == float('inf'):\n            upper = infty_val\n        if upper == -float('inf'):\n            # Only occurs if both upper and lower are both -inf\n            raise SummationError('Cannot sum from -infty to -infty.')\n        if lower == float('inf'):\n            # Only occurs if both upper and lower are both inf\n            raise SummationError('Cannot sum from infty to infty.')\n            \n        # Handle even/odd numbers only\n        if even_odd == 1:\n            # Odd numbers only\n            delta = 2\n            if abs(lower % 2) != 1:\n                lower += 1\n        elif even_odd == 2:\n            # Even numbers only\n            delta = 2\n            if abs(lower % 2) != 0:\n                lower += 1\n        else:\n            delta = 1\n\n        # Because the summand can be a vector/matrix/tensor and can also contain\n        # user-defined functions, we can't just use numpy vector math here. Have\n        # to for-loop it the old-fashioned way, and hope it's not too slow...\n        # Note that we need to convert floats to integers for range.\n        evals = [eval_summand(n) for n in range(int(lower), int(upper + 1), delta)]\n", "        # Because the summand can be a vector/matrix/tensor and can also contain\n        # user-defined functions, we can't just use numpy vector math here. Have\n        # to for-loop it the old-fashioned way, and hope it's not too slow...\n        indices = SumGrader.summation_indices(lower, upper, even_odd, infty_val)\n        evals = [eval_summand(n) for n in indices]\n")
_W6_TAIL = ('        result = sum(evals)\n\n        return result\n', '        result = sum(evals)\n\n        return result\n\n    # For each setting of even_odd, the step between successive terms of the sum\n    # and the parity (n % 2) that every term must have (None when all integers count)\n    index_patterns = {\n        0: (1, None),  # Every number\n        1: (2, 1),     # Odd numbers only\n        2: (2, 0),     # Even numbers only\n    }\n\n    @staticmethod\n    def finite_limit(limit, infty_val):\n        """Replace an infinite summation limit by the large number standing in for it"""\n        if abs(limit) == float(\'inf\'):\n            return infty_val if limit > 0 else -infty_val\n        return limit\n\n    @staticmethod\n    def summation_indices(lower, upper, even_odd, infty_val=1e3):\n        """\n        Construct the range of integers that a summation runs over.\n\n        Arguments are as for perform_summation. The limits may be given in either\n        order, and may be infinite (but not both the same infinity).\n        """\n        # A sum between two copies of the same infinity has no terms to cut off at\n        if lower == upper and abs(lower) == float(\'inf\'):\n            name = \'infty\' if lower > 0 else \'-infty\'\n            raise SummationError(\'Cannot sum from {0} to {0}.\'.format(name))\n\n        # Handle infinities. Note that we need to convert floats to integers for range.\n        first = int(SumGrader.finite_limit(lower, infty_val))\n        last = int(SumGrader.finite_limit(upper, infty_val))\n\n@@ORDER@@        return range(first, last + 1, delta)\n')
_W6_ALIGN = '        # Handle even/odd numbers only, by starting on a number of the right kind\n        delta, parity = SumGrader.index_patterns[even_odd]\n        if parity is not None and first % 2 != parity:\n            first += 1\n\n'
_W6_SORT = '        # Sort the limits\n        if first > last:\n            first, last = last, first\n\n'

_W6R_TABLE = ('class SumGrader(SummationGraderBase):\n', "def _first_refusal(refusals, *args):\n    return next((message for applies, message in refusals if applies(*args)), None)\n\n_SUM_LIMIT_REFUSALS = (\n    (lambda lower, upper: isinstance(lower, complex) or isinstance(upper, complex),\n     'Summation limits must be real but have evaluated to complex numbers.'),\n    (lambda lower, upper: abs(lower) @@LOWER@@ float('inf') and int(lower) != lower,\n     'Lower summation limit does not evaluate to an integer.'),\n    (lambda lower, upper: abs(upper) != float('inf') and int(upper) != upper,\n     'Upper summation limit does not evaluate to an integer.'),\n)\n\nclass SumGrader(SummationGraderBase):\n")
_W6R_USE = ("        # Check to ensure that sum limits are not complex.\n        if isinstance(lower, complex) or isinstance(upper, complex):\n            raise SummationError('Summation limits must be real but have evaluated '\n                                 'to complex numbers.')\n\n        # Check to ensure that sum limits are integers or infinite\n        if abs(lower) != float('inf') and int(lower) != lower:\n            raise SummationError('Lower summation limit does not evaluate to an integer.')\n        if abs(upper) != float('inf') and int(upper) != upper:\n            raise SummationError('Upper summation limit does not evaluate to an integer.')\n\n", '        message = _first_refusal(_SUM_LIMIT_REFUSALS, lower, upper)\n        if message is not None:\n            raise SummationError(message)\n\n')

MUTANTS = [
    Mutant('refusal-table-row-tests-infinite-lower', IG, [(_W6R_TABLE[0], _W6R_TABLE[1].replace('@@LOWER@@', '==')), _W6R_USE], None, 'D2'),
    Mutant('limits-ordered-after-parity-alignment', IG, [_W6_BODY, (_W6_TAIL[0], _W6_TAIL[1].replace('@@ORDER@@', _W6_ALIGN + _W6_SORT))], None, 'D1'),
    Mutant('table-helper-even-remainder-wrong', IG, [(_W5R_STEP[0][0], _W5R_STEP[0][1]), (_W5R_STEP[1][0], _W5R_STEP[1][1].replace('(2, 0)', '(2, 1)'))], None, 'D1'),
    Mutant('input-count-guard-accepts-too-many', IG, _W5R_COUNT[0], _W5R_COUNT[1].replace('len(used_inputs) == len(student_input)', 'len(used_inputs) <= len(student_input)'), 'D4'),
    Mutant('cutoff-helper-given-function-scope', IG, [_W5I_CONST, _W5I_LIMITS, (_W5I_CUTOFF[0], _W5I_CUTOFF[1] % 'funcscope'), _W5I_METHODS], None, 'D2'),
    Mutant('upper-not-inclusive', IG, "range(int(lower), int(upper + 1), delta)", "range(int(lower), int(upper), delta)", 'D1'),
    Mutant('swap-removed', IG, "        if lower > upper:\n            lower, upper = upper, lower\n", "", 'D1'),
    Mutant('swap-inverted', IG, "        if lower > upper:\n            lower, upper = upper, lower\n", "        if lower < upper:\n            lower, upper = upper, lower\n", 'D1'),
    Mutant('parity-odd-test', IG, "            if abs(lower % 2) != 1:", "            if abs(lower % 2) != 0:", 'D1'),
    Mutant('parity-even-step-back', IG, "            if abs(lower % 2) != 0:\n                lower += 1", "            if abs(lower % 2) != 0:\n                lower -= 1", 'D1'),
    Mutant('parity-modulus-three', IG, "            if abs(lower % 2) != 1:", "            if abs(lower % 3) != 1:", 'D1'),
    Mutant('parity-even-modulus-three', IG, "            if abs(lower % 2) != 0:", "            if abs(lower % 3) != 0:", 'D1'),
    Mutant('parity-product-instead-of-remainder', IG, "            if abs(lower % 2) != 0:", "            if abs(lower * 2) != 0:", 'D1'),
    Mutant('odd-step-one', IG, "            # Odd numbers only\n            delta = 2", "            # Odd numbers only\n            delta = 1", 'D1'),
    Mutant('minus-inf-sign', IG, "            lower = -infty_val", "            lower = infty_val", 'D1'),
    Mutant('plus-inf-not-replaced', IG, "        if upper == float('inf'):\n            upper = infty_val\n", "", 'D1'),
    Mutant('inf-inf-returns', IG, "            raise SummationError('Cannot sum from infty to infty.')", "            return 0", 'D1'),
    Mutant('first-term-dropped', IG, "range(int(lower), int(upper + 1), delta)", "range(int(lower) + delta, int(upper + 1), delta)", 'D1'),
    Mutant('odd-even-exchanged', IG, "        if even_odd == 1:\n            # Odd numbers only", "        if even_odd == 2:\n            # Odd numbers only", 'D1'),
    Mutant('minus-inf-not-replaced', IG, "        # Handle infinities\n        if lower == -float('inf'):\n            lower = -infty_val\n",
           "        # Handle infinities\n", 'D1'),
    Mutant('limits-clamped', IG, "        if lower == -float('inf'):\n            lower = -infty_val\n        if upper == float('inf'):\n            upper = infty_val\n",
           "        lower = max(lower, -infty_val)\n        upper = min(upper, infty_val)\n", 'D1'),
    Mutant('parity-closed-form-truncating', IG, "            if abs(lower % 2) != 1:\n                lower += 1", "            lower = 2 * int(lower / 2) + 1", 'D1'),
    Mutant('evaluations-filtered', IG, "evals = [eval_summand(n) for n in range(int(lower), int(upper + 1), delta)]",
           "evals = [eval_summand(n) for n in range(int(lower), int(upper + 1), delta) if n]", 'D1'),
    Mutant('fact-cutoff-never-assigned', IG, "            infty_val = self.config['infty_val_fact']\n", "            pass\n", 'D2'),
    Mutant('always-fact-cutoff', IG, "            infty_val = self.config['infty_val']", "            infty_val = self.config['infty_val_fact']", 'D2'),
    Mutant('factorial-alias-forgotten', IG, "        if 'fact' in used_funcs or 'factorial' in used_funcs:", "        if 'fact' in used_funcs:", 'D2'),
    Mutant('cutoffs-exchanged', IG, "        if 'fact' in used_funcs or 'factorial' in used_funcs:", "        if not ('fact' in used_funcs or 'factorial' in used_funcs):", 'D2'),
    Mutant('lower-integer-check-dropped', IG, "        if abs(lower) != float('inf') and int(lower) != lower:\n            raise SummationError('Lower summation limit does not evaluate to an integer.')\n", "", 'D2'),
    Mutant('upper-inf-guard-dropped', IG, "        if abs(upper) != float('inf') and int(upper) != upper:", "        if int(upper) != upper:", 'D2'),
    Mutant('complex-upper-unchecked', IG, "        if isinstance(lower, complex) or isinstance(upper, complex):\n            raise SummationError(",
           "        if isinstance(lower, complex):\n            raise SummationError(", 'D2'),
    Mutant('scope-conflict-unchecked', IG, "        if summation_var in varscope:\n            msg = 'Summation variable {} conflicts with another previously-defined variable.'\n            raise SummationError(msg.format(summation_var))\n", "", 'D2'),
    Mutant('scope-conflict-inverted', IG, "        if summation_var in varscope:", "        if summation_var not in varscope:", 'D2'),
    Mutant('limit-error-class', IG, "            raise SummationError('Upper summation limit does not evaluate to an integer.')",
           "            raise ValueError('Upper summation limit does not evaluate to an integer.')", 'D2'),
    Mutant('index-left-in-scope', IG, "            del varscope[summation_var]\n            return value", "            return value", 'D2'),
    Mutant('index-removed-once-after-the-sum', IG, "            del varscope[summation_var]\n            return value\n\n        # Check if used_funcs includes a factorial function\n        if 'fact' in used_funcs or 'factorial' in used_funcs:\n            infty_val = self.config['infty_val_fact']\n        else:\n            infty_val = self.config['infty_val']\n\n        # Compute the sum\n        result = self.perform_summation(eval_summand, lower, upper, self.config['even_odd'], infty_val)\n",
           "            return value\n\n        # Check if used_funcs includes a factorial function\n        if 'fact' in used_funcs or 'factorial' in used_funcs:\n            infty_val = self.config['infty_val_fact']\n        else:\n            infty_val = self.config['infty_val']\n\n        # Compute the sum\n        result = self.perform_summation(eval_summand, lower, upper, self.config['even_odd'], infty_val)\n        del varscope[summation_var]\n", 'D2'),
    Mutant('even-odd-ignored', IG, "self.perform_summation(eval_summand, lower, upper, self.config['even_odd'], infty_val)",
           "self.perform_summation(eval_summand, lower, upper, 0, infty_val)", 'D2'),
    Mutant('summand-without-functions', IG, "            value, _ = evaluator(summand_str,\n                                 variables=varscope,\n                                 functions=funcscope,",
           "            value, _ = evaluator(summand_str,\n                                 variables=varscope,\n                                 functions=varscope,", 'D2'),
    Mutant('cached-function-set-updated-in-place', IG, "        used_funcs = lower_used.functions_used.union(upper_used.functions_used, expression_used.functions_used)\n",
           "        used_funcs = expression_used.functions_used\n        used_funcs.update(lower_used.functions_used, upper_used.functions_used)\n", 'D5'),
    Mutant('author-handler-narrowed', IG, "            except MITxError as error:", "            except SummationError as error:", 'D3'),
    Mutant('author-error-class', IG, "                msg = \"Summation Error with author's stored answer: {}\"\n                raise ConfigError(msg.format(str(error)))",
           "                msg = \"Summation Error with author's stored answer: {}\"\n                raise SummationError(msg.format(str(error)))", 'D3'),
    Mutant('blacklist-filtered-by-declared-names', IG, "        # Similar to FormulaGrader, but specialized to SumGrader\n        funclist = self.functions.copy()\n        varlist = {}\n\n        instructor_evals = []\n        student_evals = []\n\n        # Create a list of instructor variables to remove from student evaluation\n        var_blacklist = []\n        for var in self.config['instructor_vars']:\n            if var in var_samples[0]:\n                var_blacklist.append(var)\n", "        # Similar to FormulaGrader, but specialized to SumGrader\n        funclist = self.functions.copy()\n        varlist = {}\n\n        instructor_evals = []\n        student_evals = []\n\n        # Create a list of instructor variables to remove from student evaluation\n        declared = set(self.config['variables']).union(self.constants)\n        var_blacklist = []\n        for var in self.config['instructor_vars']:\n            if var in declared:\n                var_blacklist.append(var)\n", 'D3'),
    Mutant('instructor-vars-kept', IG, "            for key in var_blacklist:\n                del varlist[key]\n                \n            # Evaluate sums.", "            # Evaluate sums.", 'D3'),
    Mutant('sample-not-loaded', IG, "            varlist.update(var_samples[i])\n\n            # Evaluate sums. Error handling here is to catch author errors.",
           "            # Evaluate sums. Error handling here is to catch author errors.", 'D3'),
    Mutant('results-exchanged', IG, "instructor_eval=expected_eval)\n\n        return instructor_evals, student_evals, used_funcs",
           "instructor_eval=expected_eval)\n\n        return student_evals, instructor_evals, used_funcs", 'D3'),
    Mutant('author-value-overwritten', IG, "            instructor_evals.append(expected_eval)", "            instructor_evals.append(student_eval)", 'D3'),
    Mutant('comparison-roles-exchanged', IG, "self.compare_evaluations(instructor_evals, student_evals,", "self.compare_evaluations(student_evals, instructor_evals,", 'D3'),
    Mutant('integration-error-swallowed', IG, "            raise IntegrationError(msg.format(self.wording['noun'], str(error)))", "            pass", 'D4'),
    Mutant('blank-test-never-true', IG, "            if structured_input[key] == '':", "            if structured_input[key] is None:", 'D4'),
    Mutant('dummy-validation-dropped', IG, "        self.validate_user_dummy_variable(structured_input[self.wording['adjective'] + '_variable'])\n", "", 'D4'),
    Mutant('blank-check-after-dummy-validation', IG,
           "        for key in structured_input:\n            if structured_input[key] == '':\n                msg = \"Please enter a value for {key}, it cannot be empty.\"\n                raise MissingInput(msg.format(key=key))\n        self.validate_user_dummy_variable(structured_input[self.wording['adjective'] + '_variable'])\n",
           "        self.validate_user_dummy_variable(structured_input[self.wording['adjective'] + '_variable'])\n        for key in structured_input:\n            if structured_input[key] == '':\n                msg = \"Please enter a value for {key}, it cannot be empty.\"\n                raise MissingInput(msg.format(key=key))\n", 'D4'),
    Mutant('count-check-one-sided', IG, "        if len(used_inputs) != len(student_input):", "        if len(used_inputs) < len(student_input):", 'D4'),
    Mutant('blank-error-class', IG, "                raise MissingInput(msg.format(key=key))", "                raise ConfigError(msg.format(key=key))", 'D4'),
    Mutant('positions-zero-based-range', IG, "set(range(1, len(used_positions_set) + 1))", "set(range(len(used_positions_set)))", 'D4'),
    Mutant('positions-not-shifted', IG, "            key: input_positions[key] - 1  # Turn", "            key: input_positions[key]  # Turn", 'D4'),
    Mutant('constant-as-dummy-allowed', IG, "        if varname in self.functions or varname in self.random_funcs or varname in self.constants:",
           "        if varname in self.functions or varname in self.random_funcs:", 'D4'),
    Mutant('repeated-positions-allowed', IG, "        if len(used_positions_list) > len(used_positions_set):\n            raise ConfigError(\"Key input_positions has repeated indices.\")\n", "", 'D4'),
    Mutant('blank-check-removed', IG, "        for key in structured_input:\n            if structured_input[key] == '':\n                msg = \"Please enter a value for {key}, it cannot be empty.\"\n                raise MissingInput(msg.format(key=key))\n",
           "", 'D4'),
]

BENIGN = [
    Benign('limit-refusals-as-first-match-table', IG, [(_W6R_TABLE[0], _W6R_TABLE[1].replace('@@LOWER@@', '!=')), _W6R_USE], None),
    Benign('summation-indices-helper-with-pattern-table', IG, [_W6_BODY, (_W6_TAIL[0], _W6_TAIL[1].replace('@@ORDER@@', _W6_SORT + _W6_ALIGN))], None),
    Benign('first-index-and-step-from-table-helper', IG, _W5R_STEP, None),
    Benign('input-count-positive-guard-items', IG, _W5R_COUNT[0], _W5R_COUNT[1]),
    Benign('first-blank-key-via-bound-generator', IG, _W5R_BLANK[0], _W5R_BLANK[1]),
    Benign('limit-checks-and-cutoff-in-helpers', IG, [_W5I_CONST, _W5I_LIMITS, (_W5I_CUTOFF[0], _W5I_CUTOFF[1] % 'used_funcs'), _W5I_METHODS], None),
    Benign('reserved-names-as-one-union', IG, "        if varname in self.functions or varname in self.random_funcs or varname in self.constants:",
           "        if varname in set(self.functions) | set(self.random_funcs) | set(self.constants):"),
    Benign('gap-test-by-symmetric-difference', IG, "        if used_positions_set != set(range(1, len(used_positions_set) + 1)):", "        if used_positions_set ^ set(range(1, len(used_positions_set) + 1)):"),
    Benign('check-with-temporaries', IG, "        self.validate_user_dummy_variable(structured_input[self.wording['adjective'] + '_variable'])\n",
           "        dummy_key = self.wording['adjective'] + '_variable'\n        self.validate_user_dummy_variable(structured_input[dummy_key])\n"),
    Benign('cutoff-key-selected-first', IG, "        if 'fact' in used_funcs or 'factorial' in used_funcs:\n            infty_val = self.config['infty_val_fact']\n        else:\n            infty_val = self.config['infty_val']\n",
           "        infty_key = 'infty_val'\n        if any(name in used_funcs for name in ('fact', 'factorial')):\n            infty_key = 'infty_val_fact'\n        infty_val = self.config[infty_key]\n"),
    Benign('function-set-built-from-a-copy', IG, "        used_funcs = lower_used.functions_used.union(upper_used.functions_used, expression_used.functions_used)\n",
           "        used_funcs = set(expression_used.functions_used)\n        used_funcs.update(lower_used.functions_used, upper_used.functions_used)\n"),
    Benign('limit-checks-in-a-loop', IG, "        if abs(lower) != float('inf') and int(lower) != lower:\n            raise SummationError('Lower summation limit does not evaluate to an integer.')\n        if abs(upper) != float('inf') and int(upper) != upper:\n            raise SummationError('Upper summation limit does not evaluate to an integer.')\n",
           "        for label, limit in (('Lower', lower), ('Upper', upper)):\n            if abs(limit) != float('inf') and int(limit) != limit:\n                raise SummationError('{} summation limit does not evaluate to an integer.'.format(label))\n"),
    Benign('complex-check-with-any', IG, "        if isinstance(lower, complex) or isinstance(upper, complex):\n            raise SummationError(", "        if any(isinstance(limit, complex) for limit in (lower, upper)):\n            raise SummationError("),
    Benign('cutoff-with-any', IG, "        if 'fact' in used_funcs or 'factorial' in used_funcs:\n            infty_val = self.config['infty_val_fact']\n        else:\n            infty_val = self.config['infty_val']\n",
           "        has_factorial = any(name in used_funcs for name in ('fact', 'factorial'))\n        infty_val = self.config['infty_val_fact' if has_factorial else 'infty_val']\n"),
    Benign('blank-check-with-next', IG, "        for key in structured_input:\n            if structured_input[key] == '':\n                msg = \"Please enter a value for {key}, it cannot be empty.\"\n                raise MissingInput(msg.format(key=key))\n",
           "        blank_key = next((key for key in structured_input if structured_input[key] == ''), None)\n        if blank_key is not None:\n            raise MissingInput('Please enter a value for {}, it cannot be empty.'.format(blank_key))\n"),
    Benign('blacklist-filtered-by-sample-key-set', IG, "        # Similar to FormulaGrader, but specialized to SumGrader\n        funclist = self.functions.copy()\n        varlist = {}\n\n        instructor_evals = []\n        student_evals = []\n\n        # Create a list of instructor variables to remove from student evaluation\n        var_blacklist = []\n        for var in self.config['instructor_vars']:\n            if var in var_samples[0]:\n                var_blacklist.append(var)\n", "        # Similar to FormulaGrader, but specialized to SumGrader\n        funclist = self.functions.copy()\n        varlist = {}\n\n        instructor_evals = []\n        student_evals = []\n\n        # Create a list of instructor variables to remove from student evaluation\n        sampled = set(var_samples[0])\n        var_blacklist = []\n        for var in self.config['instructor_vars']:\n            if var in sampled:\n                var_blacklist.append(var)\n"),
    Benign('blacklist-as-comprehension', IG, "        var_blacklist = []\n        for var in self.config['instructor_vars']:\n            if var in var_samples[0]:\n                var_blacklist.append(var)\n\n        for i in range(self.config['samples']):\n            # Update the functions and variables listings with this sample\n            funclist.update(func_samples[i])\n            varlist.update(var_samples[i])\n\n            # Evaluate sums.",
           "        var_blacklist = [var for var in self.config['instructor_vars'] if var in var_samples[0]]\n\n        for i in range(self.config['samples']):\n            # Update the functions and variables listings with this sample\n            funclist.update(func_samples[i])\n            varlist.update(var_samples[i])\n\n            # Evaluate sums."),
    Benign('parity-branches-merged', IG, "        if even_odd == 1:\n            # Odd numbers only\n            delta = 2\n            if abs(lower % 2) != 1:\n                lower += 1\n        elif even_odd == 2:\n            # Even numbers only\n            delta = 2\n            if abs(lower % 2) != 0:\n                lower += 1\n        else:\n            delta = 1\n",
           "        if even_odd in (1, 2):\n            delta = 2\n            wanted = 1 if even_odd == 1 else 0\n            if abs(lower % 2) != wanted:\n                lower += 1\n        else:\n            delta = 1\n"),
    Benign('limits-sorted-with-min-max', IG, "        if lower > upper:\n            lower, upper = upper, lower\n",
           "        lower, upper = min(lower, upper), max(lower, upper)\n"),
    Benign('parity-without-abs', IG, "            if abs(lower % 2) != 1:", "            if lower % 2 != 1:"),
    Benign('parity-test-positive-form', IG, "            if abs(lower % 2) != 1:", "            if lower % 2 == 0:"),
    Benign('parity-closed-form-exact', IG, "            if abs(lower % 2) != 1:\n                lower += 1", "            lower = lower + (1 - lower % 2)"),
    Benign('parity-closed-form-floor', IG, "            if abs(lower % 2) != 0:\n                lower += 1", "            lower = 2 * ((lower + 1) // 2)"),
    Benign('explicit-accumulation-loop', IG, "        evals = [eval_summand(n) for n in range(int(lower), int(upper + 1), delta)]\n        result = sum(evals)\n",
           "        result = 0\n        for n in range(int(lower), int(upper + 1), delta):\n            result = result + eval_summand(n)\n"),
    Benign('factorial-test-as-set-intersection', IG, "        if 'fact' in used_funcs or 'factorial' in used_funcs:",
           "        if used_funcs & {'fact', 'factorial'}:"),
    Benign('instructor-vars-popped', IG, "            for key in var_blacklist:\n                del varlist[key]\n                \n            # Evaluate sums.",
           "            for key in var_blacklist:\n                varlist.pop(key)\n\n            # Evaluate sums."),
    Benign('blank-loop-over-items', IG, "        for key in structured_input:\n            if structured_input[key] == '':",
           "        for key, entered in structured_input.items():\n            if entered == '':"),
    Benign('integer-test-by-modulo', IG, "        if abs(lower) != float('inf') and int(lower) != lower:",
           "        if abs(lower) != float('inf') and lower % 1 != 0:"),
    Benign('cutoff-as-conditional-expression', IG, "        if 'fact' in used_funcs or 'factorial' in used_funcs:\n            infty_val = self.config['infty_val_fact']\n        else:\n            infty_val = self.config['infty_val']\n",
           "        infty_val = self.config['infty_val_fact'] if ('fact' in used_funcs or 'factorial' in used_funcs) else self.config['infty_val']\n"),
]
