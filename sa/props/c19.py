"""C19 -- SumGrader accepts exactly the sums equal in value to the author's.

The four functions that decide *which* terms are summed and *which* error is raised
(`perform_summation`, `evaluate_sum`, `gen_evaluations`, `SummationGraderBase.check` with its
helpers) are small and loop-light; their syntax trees are evaluated by the checker's own bounded
evaluator (`_c13_enum`, engine component E7d) over a finite domain chosen from the property
statement (integer limits in [-4, 4] in both orders and as floats, +-inf, even_odd in {0,1,2},
complex and non-integer limits, scopes with and without the summation variable, author and
student failures, blank / missing / surplus input fields) and the outcome of every case is
compared with the fixed table of Appendix A10.  Nothing of /repo is imported or run.
"""
import ast

from ..index import AnalysisError
from .. import nf, lib
from ..selftest import Mutant, Benign
from ._c13_enum import (Interp, Model, Obj, Sym, Native, Raised, Budget, Unsupported, describe)

ID = 'C19'
IG = 'mitxgraders/formulagrader/integralgrader.py'
FILES = [IG]

EXPLANATION = (
    "Bounded evaluation (E7d, the checker's own evaluator over syntax trees; nothing of /repo is imported) of the "
    "functions that fix the meaning of a summation, compared case by case with Appendix A10: "
    "(D1) perform_summation sums exactly the integers between the limits in either order, odd/even only when "
    "configured, +-inf replaced by the cutoff, same-sign infinities refused with SummationError; "
    "(D2) evaluate_sum refuses a summation variable that is already in scope, complex limits and finite "
    "non-integer limits with SummationError before any summation, chooses the factorial cutoff exactly when "
    "fact/factorial is used, hands config['even_odd'] on, lets the summand see the index only through "
    "varscope[summation_var] and leaves the scope as it found it; "
    "(D3) SumGrader.gen_evaluations evaluates the author's sum with the instructor variables and turns every "
    "library error there into ConfigError, deletes the instructor variables before every student's sum, lets "
    "the student's errors through unchanged and returns (author values, student values, functions used); "
    "(D4) SummationGraderBase.check refuses a wrong number of inputs (ConfigError), blank fields (MissingInput) "
    "and unusable dummy variables (InvalidInput) before check_math_response is reached; "
    "validate_input_positions / transform_list_to_dict map positions as documented.")
NOT_DECIDED = ("numeric equality of the two sums within tolerance (compare_evaluations, C04); values produced by the "
               "formula evaluator; IntegralGrader's quadrature (scipy absent; only the shared base class is covered); "
               "limits outside the enumerated domain (|limit| > 4, non-integer cutoffs).")
ASSUMPTIONS = ["the evaluated subset of Python (ints, floats, inf, abs, %, int(), range, dict/list/set methods) behaves as documented",
               "limits reach perform_summation only through evaluate_sum (checked: single caller)"]

SG = 'mitxgraders.formulagrader.integralgrader.SumGrader'
SB = 'mitxgraders.formulagrader.integralgrader.SummationGraderBase'
EVALUATOR = 'mitxgraders.helpers.calc.expressions.evaluator'
INF = float('inf')


def check(ctx):
    idx = ctx.index
    d1_sum(ctx, idx)
    d2_limits(ctx, idx)
    d3_author(ctx, idx)
    d4_order(ctx, idx)


def _name(cls):
    return cls.split('.')[-1] if isinstance(cls, str) else cls


class Groups(object):
    """Collects case results per obligation group; reports the first failing case of each group."""

    def __init__(self, rule, where):
        self.rule = rule
        self.where = where
        self.groups = {}
        self.order = []

    def case(self, group, ok, scenario, expected, found):
        g = self.groups.setdefault(group, {'n': 0, 'bad': []})
        if group not in self.order:
            self.order.append(group)
        g['n'] += 1
        if not ok:
            g['bad'].append((scenario, expected, found))

    def flush(self, why):
        for group in self.order:
            g = self.groups[group]
            if g['bad']:
                sc, exp, fnd = g['bad'][0]
                self.rule.violation(group, 'for %s the code gives %s, the property needs %s (%d of %d cases differ)'
                                    % (sc, fnd, exp, len(g['bad']), g['n']),
                                    self.where, expected=str(exp), found=str(fnd))
            else:
                self.rule.ok(group, '%d cases agree with the reference table' % g['n'], self.where)


def outcome(fn):
    """Run a thunk; returns ('ret', value) | ('raise', class name) | ('loop', None)."""
    try:
        return ('ret', fn())
    except Raised as r:
        return ('raise', _name(r.cls))
    except Budget:
        return ('loop', None)


# ----------------------------------------------------------------------------- D1
def expected_indices(l, u, eo, c):
    lo, hi = (l, u) if l <= u else (u, l)
    if lo == INF or hi == -INF:
        return None
    if lo == -INF:
        lo = -c
    if hi == INF:
        hi = c
    ks = [k for k in range(int(lo) - 2, int(hi) + 3) if lo <= k <= hi]
    if eo == 1:
        ks = [k for k in ks if k % 2 == 1]
    elif eo == 2:
        ks = [k for k in ks if k % 2 == 0]
    return ks


def d1_sum(ctx, idx):
    r = ctx.rule('D1.SUM', 'perform_summation sums exactly the integers between the limits (either order), odd/even '
                 'only when configured, +-inf -> cutoff, same-sign infinities refused', floor=7)
    with r:
        fi = idx.func(SG + '.perform_summation')
        if not fi.is_static or fi.params[:5] != ['eval_summand', 'lower', 'upper', 'even_odd', 'infty_val']:
            raise AnalysisError('perform_summation: signature changed: %s' % fi.params)
        G = Groups(r, fi.loc)
        finite = list(range(-4, 5))
        lims = [-INF] + finite + [INF]

        def run(l, u, eo, c):
            calls = []
            it = Interp(idx, max_steps=20000)

            def summand(n):
                calls.append(n)
                return 3 ** (int(n) + 12) if abs(n) < 12 else 0
            res = outcome(lambda: it.call_function(fi, [Native(summand, 'eval_summand'), l, u, eo, c]))
            return res, calls

        def judge(group, l, u, eo, c):
            exp = expected_indices(l, u, eo, c)
            res, calls = run(l, u, eo, c)
            sc = 'lower=%s, upper=%s, even_odd=%d, cutoff=%s' % (describe(l), describe(u), eo, describe(c))
            if exp is None:
                G.case(group, res == ('raise', 'SummationError'), sc, 'SummationError', _show(res, calls))
                return
            want = sum(3 ** (k + 12) for k in exp)
            ok = res[0] == 'ret' and sorted(calls) == exp and res[1] == want
            G.case(group, ok, sc, 'the sum over k in %s' % exp, _show(res, calls))

        for eo, group in ((0, 'perform_summation: every integer between the limits, inclusive, either order'),
                          (1, 'perform_summation: odd integers only (even_odd=1)'),
                          (2, 'perform_summation: even integers only (even_odd=2)')):
            for l in finite:
                for u in finite:
                    judge(group, l, u, eo, 6)
        for eo in (0, 1, 2):
            for l, u in ((-3, 2), (2, -3), (1, 4), (0, 0), (3, 3), (-2, -2)):
                judge('perform_summation: limits given as floats', float(l), float(u), eo, 6.0)
        for eo in (0, 1, 2):
            for c in (6, 7, 6.0):
                for x in (-3, 0, 2, 3):
                    judge('perform_summation: infinite limits are replaced by the cutoff', -INF, x, eo, c)
                    judge('perform_summation: infinite limits are replaced by the cutoff', x, -INF, eo, c)
                    judge('perform_summation: infinite limits are replaced by the cutoff', x, INF, eo, c)
                    judge('perform_summation: infinite limits are replaced by the cutoff', INF, x, eo, c)
                judge('perform_summation: infinite limits are replaced by the cutoff', -INF, INF, eo, c)
                judge('perform_summation: infinite limits are replaced by the cutoff', INF, -INF, eo, c)
        for eo in (0, 1, 2):
            judge('perform_summation: same-sign infinite limits raise SummationError', INF, INF, eo, 6)
            judge('perform_summation: same-sign infinite limits raise SummationError', -INF, -INF, eo, 6)
        G.flush({})
        # single caller: limits are checked by evaluate_sum before they get here
        callers = [f for f in idx.package_funcs() if lib.calls_named(f.node, 'perform_summation')]
        r.check([f.qualname for f in callers] == [SG + '.evaluate_sum'], 'perform_summation: callers',
                'called only by SumGrader.evaluate_sum (after the limit checks)',
                'perform_summation is called from %s: limits can reach the summation without the checks of evaluate_sum'
                % [f.qualname for f in callers], fi.loc)


def _show(res, calls=None):
    if res[0] == 'raise':
        return 'raise %s' % res[1]
    if res[0] == 'loop':
        return 'no result within the step bound'
    if calls is not None:
        return 'a sum over k in %s' % sorted(calls)
    return 'returns %s' % (describe(res[1]),)


# ----------------------------------------------------------------------------- D2
class SumModel(Model):
    intercept = (EVALUATOR,)

    def __init__(self):
        self.events = []

    def call(self, f, args, kwargs, node, interp):
        if getattr(f, 'fi', None) is not None and f.fi.qualname == EVALUATOR:
            formula = args[0] if args else kwargs.get('formula')
            variables = kwargs.get('variables', args[1] if len(args) > 1 else None)
            self.events.append(('evaluator', formula, dict(variables) if isinstance(variables, dict) else variables,
                                kwargs.get('functions', args[2] if len(args) > 2 else None),
                                kwargs.get('suffixes', args[3] if len(args) > 3 else None)))
            return (Sym('value'), Sym('usage'))
        return Model.call(self, f, args, kwargs, node, interp)


def d2_limits(ctx, idx):
    r = ctx.rule('D2.LIMITS', 'evaluate_sum refuses bad limits / a summation variable in scope before summing, picks '
                 'the right cutoff and evaluates the summand only through varscope[summation_var]', floor=8)
    with r:
        fi = idx.func(SG + '.evaluate_sum')
        if fi.params[:5] != ['self', 'summand_str', 'lower_str', 'upper_str', 'summation_var']:
            raise AnalysisError('evaluate_sum: signature changed: %s' % fi.params)
        G = Groups(r, fi.loc)
        CFG = {'infty_val': 1000.0, 'infty_val_fact': 80, 'even_odd': 0}

        def run(l, u, used, scope, var='k', even_odd=0):
            model = SumModel()
            it = Interp(idx, model, max_steps=20000)
            summand, lo_s, up_s, sfx = Sym('summand_str'), Sym('lower_str'), Sym('upper_str'), Sym('suffixes')
            funcscope = {'sin': Sym('sin')}
            ev = model.events

            def glf(expression, lower_str, upper_str, varscope, funcscope_):
                ev.append(('limits', expression is summand and lower_str is lo_s and upper_str is up_s
                           and varscope is scope and funcscope_ is funcscope))
                return (l, u, used)

            def ps(f, lower, upper, eo, cutoff):
                ev.append(('sum', lower, upper, eo, cutoff))
                for n in (7, -2):
                    it.call(f, [n])
                    ev.append(('after-term', dict(scope)))
                return RESULT
            RESULT = Sym('RESULT')
            cfg = dict(CFG)
            cfg['even_odd'] = even_odd
            self_obj = Obj(SG, fields={'config': cfg, 'suffixes': sfx},
                           stubs={'get_limits_and_funcs': Native(glf), 'perform_summation': Native(ps)})
            before = dict(scope)
            res = outcome(lambda: it.call_function(fi, [summand, lo_s, up_s, var], {'varscope': scope, 'funcscope': funcscope},
                                                   self_obj=self_obj))
            return res, ev, before, (summand, funcscope, sfx, RESULT)

        def summed(ev):
            return [e for e in ev if e[0] == 'sum']

        # (a) summation variable already has a meaning
        g = 'evaluate_sum: a summation variable that is already in scope raises SummationError'
        for scope in ({'x': 2.0, 'k': 1.0}, {'k': 3.0}):
            res, ev, before, _ = run(1, 5, set(), scope)
            G.case(g, res == ('raise', 'SummationError') and not summed(ev) and scope == before,
                   'summation_var=k, scope=%s' % sorted(before), 'SummationError, nothing summed, scope untouched',
                   _show2(res, ev, scope, before))
        # (b) complex limits
        g = 'evaluate_sum: complex limits raise SummationError'
        for l, u in ((1 + 2j, 3), (1, 3j), (2j, 1j)):
            res, ev, before, _ = run(l, u, set(), {'x': 2.0})
            G.case(g, res == ('raise', 'SummationError') and not summed(ev), 'lower=%r, upper=%r' % (l, u),
                   'SummationError before any summation', _show2(res, ev))
        # (c) non-integer finite limits
        g = 'evaluate_sum: finite non-integer limits raise SummationError'
        for l, u in ((2.5, 4), (1, 4.5), (0.5, 1.5), (-INF, 2.5), (2.5, INF), (-1.25, 3.0)):
            res, ev, before, _ = run(l, u, set(), {'x': 2.0})
            G.case(g, res == ('raise', 'SummationError') and not summed(ev), 'lower=%s, upper=%s' % (describe(l), describe(u)),
                   'SummationError before any summation', _show2(res, ev))
        # (d) acceptable limits are summed, with the limits handed on unchanged
        g = 'evaluate_sum: integer and infinite limits are summed as given'
        for l, u in ((1, 5), (1.0, 5.0), (5, 1), (-INF, 3), (2, INF), (-INF, INF), (INF, -INF), (0, 0), (-3.0, 2)):
            for eo in (0, 1, 2):
                res, ev, before, (summand, funcscope, sfx, RESULT) = run(l, u, {'sin'}, {'x': 2.0}, even_odd=eo)
                s = summed(ev)
                ok = (res[0] == 'ret' and len(s) == 1 and {s[0][1], s[0][2]} == {l, u} and s[0][3] == eo
                      and isinstance(res[1], tuple) and len(res[1]) == 2 and res[1][0] is RESULT and res[1][1] == {'sin'}
                      and ('limits', True) in ev)
                G.case(g, ok, 'lower=%s, upper=%s, even_odd=%d' % (describe(l), describe(u), eo),
                       'perform_summation(summand, %s, %s, %d, cutoff) and (result, used functions) returned'
                       % (describe(l), describe(u), eo), _show2(res, ev))
        # (e) cutoff
        g = 'evaluate_sum: factorial cutoff exactly when fact/factorial is used'
        for used, want in ((set(), 1000.0), ({'sin'}, 1000.0), ({'fact'}, 80), ({'factorial'}, 80),
                           ({'sin', 'factorial'}, 80), ({'fact', 'factorial'}, 80), ({'factor'}, 1000.0)):
            res, ev, before, _ = run(1, INF, used, {'x': 2.0})
            s = summed(ev)
            G.case(g, res[0] == 'ret' and len(s) == 1 and s[0][4] == want, 'functions used = %s' % sorted(used),
                   'cutoff %s' % want, ('cutoff %s' % s[0][4]) if s else _show2(res, ev))
        # (f) the summand sees the index through varscope[summation_var] only; scope restored
        g = 'evaluate_sum: summand evaluated with varscope[summation_var] = index'
        g2 = 'evaluate_sum: the scope is left as it was found'
        for var in ('k', 'n'):
            scope = {'x': 2.0}
            res, ev, before, (summand, funcscope, sfx, RESULT) = run(1, 5, set(), scope, var=var)
            evs = [e for e in ev if e[0] == 'evaluator']
            ok = res[0] == 'ret' and len(evs) == 2
            for e, n in zip(evs, (7, -2)):
                ok = ok and e[1] is summand and isinstance(e[2], dict) and e[2] == {'x': 2.0, var: n} \
                    and e[3] is funcscope and e[4] is sfx
            G.case(g, ok, 'summation_var=%s, scope={x}' % var,
                   'evaluator(summand, variables={x, %s: index}, functions=funcscope, suffixes=self.suffixes)' % var,
                   _show2(res, ev))
            after = [e[1] for e in ev if e[0] == 'after-term']
            G.case(g2, res[0] == 'ret' and scope == before and all(a == before for a in after), 'summation_var=%s' % var,
                   'scope == {x} after every term and after the call',
                   'scope %s after a term, %s after the call' % ([sorted(a) for a in after], sorted(scope))
                   if res[0] == 'ret' else _show2(res, ev))
        G.flush({})
        # (g) error classes are student-facing
        se = idx.cls('mitxgraders.formulagrader.integralgrader.SummationError')
        r.check('mitxgraders.exceptions.StudentFacingError' in se.mro, 'SummationError', 'a StudentFacingError',
                'SummationError no longer descends from StudentFacingError: limit errors are not shown to the student',
                se.loc)


def _show2(res, ev, scope=None, before=None):
    s = [e for e in ev if e[0] == 'sum']
    if res[0] == 'raise':
        text = 'raise %s' % res[1]
    elif res[0] == 'loop':
        text = 'no result within the step bound'
    else:
        text = 'returns %s' % (describe(res[1]),)
    if s:
        text += ' after perform_summation(summand, %s, %s, %s, %s)' % tuple(describe(x) for x in s[0][1:])
    ev_calls = [e for e in ev if e[0] == 'evaluator']
    if ev_calls:
        text += '; summand evaluated with variables %s' % [e[2] for e in ev_calls]
    if scope is not None and before is not None and scope != before:
        text += '; scope changed to %s' % sorted(scope)
    return text


# ----------------------------------------------------------------------------- D3
CALC_UNDEF = 'mitxgraders.helpers.calc.exceptions.UndefinedVariable'


def d3_author(ctx, idx):
    r = ctx.rule('D3.AUTHOR', "gen_evaluations: author's sum with instructor variables, its library errors -> ConfigError; "
                 "instructor variables deleted before every student's sum; results in (author, student, functions) order",
                 floor=6)
    with r:
        fi = idx.func(SG + '.gen_evaluations')
        if fi.params[:5] != ['self', 'answer', 'student_input', 'var_samples', 'func_samples']:
            raise AnalysisError('gen_evaluations: signature changed: %s' % fi.params)
        G = Groups(r, fi.loc)
        KEYS = ('summand', 'lower', 'upper', 'summation_variable')

        def run(author_fail=None, student_fail=None, fail_at=0, instructor=('secret', 'unused')):
            it = Interp(idx, Model(), max_steps=50000)
            A = {k: Sym('answer.' + k) for k in KEYS}
            S = {k: Sym('student.' + k) for k in KEYS}
            var_samples = [{'x': 1.0, 'secret': 5.0}, {'x': 2.0, 'secret': 6.0}]
            func_samples = [{'f': Sym('f0')}, {'f': Sym('f1')}]
            log = []
            used = Sym('used-by-student')

            def evaluate_sum(summand, lower, upper, var, varscope=None, funcscope=None):
                who = 'author' if summand is A['summand'] else ('student' if summand is S['summand'] else '?')
                src = A if who == 'author' else S
                n = len([e for e in log if e[0] == who])
                roles = summand is src['summand'] and var is src['summation_variable'] and \
                    {id(lower), id(upper)} == {id(src['lower']), id(src['upper'])}
                log.append((who, n, roles, dict(varscope) if isinstance(varscope, dict) else varscope,
                            dict(funcscope) if isinstance(funcscope, dict) else funcscope))
                if who == 'author' and author_fail and n == fail_at:
                    raise Raised(author_fail, ['boom'])
                if who == 'student' and student_fail and n == fail_at:
                    raise Raised(student_fail, ['boom'])
                return (Sym('%s-value-%d' % (who, n)), used if who == 'student' else Sym('used-by-author'))
            self_obj = Obj(SG, fields={'config': {'instructor_vars': list(instructor), 'samples': 2},
                                       'functions': {'sin': Sym('sin')}},
                           stubs={'evaluate_sum': Native(evaluate_sum), 'log_eval_info': Native(lambda *a, **k: None)})
            res = outcome(lambda: it.call_function(fi, [A, S, var_samples, func_samples], self_obj=self_obj))
            return res, log, used, var_samples

        res, log, used, var_samples = run()
        authors = [e for e in log if e[0] == 'author']
        students = [e for e in log if e[0] == 'student']
        g = "gen_evaluations: the author's sum is evaluated once per sample with every sampled variable"
        ok = res[0] == 'ret' and len(authors) == 2 and all(
            e[2] and e[3] == var_samples[i] and e[4] is not None and e[4].get('f') is not None and e[4]['f'].name == 'f%d' % i
            and 'sin' in e[4] for i, e in enumerate(authors))
        G.case(g, ok, '2 samples of {x, secret}, instructor_vars=[secret, unused]',
               "evaluate_sum(answer's summand, limits, variable) with scope {x, secret} of that sample and that sample's functions",
               _show3(res, log))
        g = "gen_evaluations: instructor variables are deleted before every student's sum"
        ok = res[0] == 'ret' and len(students) == 2 and all(
            e[2] and e[3] == {'x': var_samples[i]['x']} and e[4] is not None and e[4].get('f') is not None
            and e[4]['f'].name == 'f%d' % i for i, e in enumerate(students))
        G.case(g, ok, '2 samples of {x, secret}, instructor_vars=[secret, unused]',
               "evaluate_sum(student's summand, limits, variable) with scope {x} of that sample", _show3(res, log))
        g = "gen_evaluations: the author's sum precedes the student's in every sample"
        order = [(e[0], e[1]) for e in log]
        G.case(g, order == [('author', 0), ('student', 0), ('author', 1), ('student', 1)], '2 samples',
               'author, student, author, student', str(order))
        g = 'gen_evaluations: returns (author values, student values, functions used by the student)'
        ok = res[0] == 'ret' and isinstance(res[1], tuple) and len(res[1]) == 3 \
            and [getattr(x, 'name', None) for x in res[1][0]] == ['author-value-0', 'author-value-1'] \
            and [getattr(x, 'name', None) for x in res[1][1]] == ['student-value-0', 'student-value-1'] \
            and res[1][2] is used
        G.case(g, ok, '2 samples', '([author-value-0, author-value-1], [student-value-0, student-value-1], used-by-student)',
               _show(res))
        g = "gen_evaluations: every library error in the author's sum becomes ConfigError"
        for cls in ('SummationError', CALC_UNDEF, 'mitxgraders.helpers.calc.exceptions.CalcOverflowError',
                    'mitxgraders.exceptions.InvalidInput', 'mitxgraders.exceptions.MITxError'):
            for at in (0, 1):
                res, log, used, _ = run(author_fail=cls, fail_at=at)
                G.case(g, res == ('raise', 'ConfigError'), "author's sum raises %s in sample %d" % (_name(cls), at),
                       'ConfigError', _show(res))
        g = "gen_evaluations: errors of the student's sum are not recast"
        for cls in ('SummationError', CALC_UNDEF, 'mitxgraders.exceptions.InvalidInput'):
            for at in (0, 1):
                res, log, used, _ = run(student_fail=cls, fail_at=at)
                G.case(g, res == ('raise', _name(cls)), "student's sum raises %s in sample %d" % (_name(cls), at),
                       _name(cls), _show(res))
        G.flush({})


def _show3(res, log):
    if res[0] != 'ret':
        return _show(res)
    return '; '.join('%s sum %d with scope %s%s' % (e[0], e[1], sorted(e[3]) if isinstance(e[3], dict) else e[3],
                                                   '' if e[2] else ' (argument roles differ)') for e in log)


# ----------------------------------------------------------------------------- D4
def d4_order(ctx, idx):
    r = ctx.rule('D4.ORDER', 'check(): wrong input count (ConfigError), blank fields (MissingInput) and unusable dummy '
                 'variables (InvalidInput) are refused before check_math_response; input positions map as documented',
                 floor=9)
    with r:
        fi = idx.func(SB + '.check')
        if fi.params[:3] != ['self', 'answers', 'student_input']:
            raise AnalysisError('check: signature changed: %s' % fi.params)
        G = Groups(r, fi.loc)
        ANS = {'lower': 'a', 'upper': 'b', 'summand': 'c', 'summation_variable': 'm'}
        FULL = {'lower': 0, 'upper': 1, 'summand': 2, 'summation_variable': 3}

        def run(student_input, positions=FULL, answers=None, cmr_fail=None):
            it = Interp(idx, Model(), max_steps=50000)
            log = []
            RESULT = Sym('RESULT')

            def cmr(ans, structured, **kw):
                log.append((ans, dict(structured) if isinstance(structured, dict) else structured))
                if cmr_fail:
                    raise Raised(cmr_fail, ['quad failed'])
                return RESULT
            self_obj = Obj(SG, fields={'config': {'answers': dict(ANS)}, 'true_input_positions': dict(positions),
                                       'functions': {'sin': Sym('sin')}, 'random_funcs': {'f': Sym('f')},
                                       'constants': {'pi': 3.14, 'i': 1j}},
                           stubs={'check_math_response': Native(cmr)})
            res = outcome(lambda: it.call_function(fi, [answers, student_input], self_obj=self_obj))
            return res, log, RESULT

        g = 'check: complete, well-formed input reaches check_math_response as a dict keyed by role'
        for inp, pos, want in (
                (['1', '5', 'k^2', 'k'], FULL, {'lower': '1', 'upper': '5', 'summand': 'k^2', 'summation_variable': 'k'}),
                (['k^2', 'k', '1', '5'], {'lower': 2, 'upper': 3, 'summand': 0, 'summation_variable': 1},
                 {'lower': '1', 'upper': '5', 'summand': 'k^2', 'summation_variable': 'k'}),
                ('m^2', {'lower': None, 'upper': None, 'summand': 0, 'summation_variable': None},
                 {'lower': 'a', 'upper': 'b', 'summand': 'm^2', 'summation_variable': 'm'}),
                (['m^2', '9'], {'lower': None, 'upper': 1, 'summand': 0, 'summation_variable': None},
                 {'lower': 'a', 'upper': '9', 'summand': 'm^2', 'summation_variable': 'm'})):
            res, log, RESULT = run(inp, pos)
            ok = res[0] == 'ret' and res[1] is RESULT and len(log) == 1 and log[0][0] == ANS and log[0][1] == want
            G.case(g, ok, 'inputs %r at positions %s' % (inp, _pos(pos)), 'check_math_response(config answers, %s)' % want,
                   _show4(res, log))
        OTHER = {'lower': '0', 'upper': '1', 'summand': 'z', 'summation_variable': 'z'}
        res, log, RESULT = run(['1', '5', 'k^2', 'k'], FULL, answers=OTHER)
        G.case(g, res[0] == 'ret' and len(log) == 1 and log[0][0] == OTHER, 'answers passed explicitly',
               'check_math_response(the given answers, ...)', _show4(res, log))
        g = 'check: a wrong number of inputs raises ConfigError before anything else'
        for inp in (['1', '5', 'k^2'], ['1', '5', 'k^2', 'k', 'extra'], ['', '5'], 'k^2', []):
            res, log, _ = run(inp)
            G.case(g, res == ('raise', 'ConfigError') and not log, 'inputs %r, four expected' % (inp,), 'ConfigError',
                   _show4(res, log))
        g = 'check: a blank field raises MissingInput before grading'
        for inp in (['', '5', 'k^2', 'k'], ['1', '', 'k^2', 'k'], ['1', '5', '', 'k'], ['1', '5', 'k^2', ''], ['', '', '', '']):
            res, log, _ = run(inp)
            G.case(g, res == ('raise', 'MissingInput') and not log, 'inputs %r' % (inp,), 'MissingInput', _show4(res, log))
        g = 'check: a dummy variable that already has a meaning raises InvalidInput before grading'
        for v in ('pi', 'i', 'sin', 'f'):
            res, log, _ = run(['1', '5', 'k^2', v])
            G.case(g, res == ('raise', 'InvalidInput') and not log, 'summation variable %r (a constant/function of the problem)' % v,
                   'InvalidInput', _show4(res, log))
        g = 'check: an ill-formed dummy variable name raises InvalidInput before grading'
        for v in ('_x', '2x', "x''y", 'a b', 'x-y'):
            res, log, _ = run(['1', '5', 'k^2', v])
            G.case(g, res == ('raise', 'InvalidInput') and not log, 'summation variable %r' % v, 'InvalidInput', _show4(res, log))
        res, log, _ = run(['1', '5', 'k^2', "'"])
        if res == ('raise', 'IndexError'):
            r.note("by-catch: a dummy variable consisting only of single quotes makes is_valid_variable_name raise IndexError "
                   "(front[0] of an empty string); the student sees the generic 'Could not check input' error instead of "
                   "InvalidInput. Still student-facing, so not counted against C19.")
        g = 'check: well-formed dummy variable names are accepted'
        for v in ('k', 'n_1', "x'", "cat''", 'Km2'):
            res, log, _ = run(['1', '5', 'k^2', v])
            G.case(g, res[0] == 'ret' and len(log) == 1, 'summation variable %r' % v, 'graded', _show4(res, log))
        g = 'check: IntegrationError from the computation stays an IntegrationError'
        res, log, _ = run(['1', '5', 'k^2', 'k'], cmr_fail='IntegrationError')
        G.case(g, res == ('raise', 'IntegrationError'), 'check_math_response raises IntegrationError', 'IntegrationError', _show4(res, log))
        res, log, _ = run(['1', '5', 'k^2', 'k'], cmr_fail='SummationError')
        G.case(g, res == ('raise', 'SummationError'), 'check_math_response raises SummationError', 'SummationError', _show4(res, log))
        G.flush({})

        # validate_input_positions (static) and its use in the constructor
        vp = idx.func(SB + '.validate_input_positions')
        G2 = Groups(r, vp.loc)
        g = 'validate_input_positions: consecutive positions from 1 are turned into 0-based indices'
        K = ('lower', 'upper', 'summand', 'summation_variable')
        for vals in ((1, 2, 3, 4), (3, 4, 1, 2), (None, None, 1, None), (2, None, 1, None), (None, 1, 2, 3)):
            d = dict(zip(K, vals))
            res = outcome(lambda: Interp(idx).call_function(vp, [dict(d)]))
            want = {k: (v - 1 if v is not None else None) for k, v in d.items()}
            G2.case(g, res == ('ret', want), 'input_positions=%s' % _pos(d), str(want), _show(res))
        g = 'validate_input_positions: repeated or non-consecutive positions raise ConfigError'
        for vals in ((1, 1, 2, 3), (1, 2, 2, None), (2, 3, 4, 5), (1, 3, None, None), (None, None, 2, None), (1, 2, 4, None)):
            d = dict(zip(K, vals))
            res = outcome(lambda: Interp(idx).call_function(vp, [dict(d)]))
            G2.case(g, res == ('raise', 'ConfigError'), 'input_positions=%s' % _pos(d), 'ConfigError', _show(res))
        G2.flush({})
        init = idx.func(SB + '.__init__')
        hits = nf.find_all(nf.pat("self.true_input_positions = self.validate_input_positions(self.config['input_positions'])",
                                  mode='exec')[0], init.node)
        r.check(bool(hits), 'SummationGraderBase.__init__: true_input_positions', 'validated 0-based positions are stored',
                "the constructor no longer stores validate_input_positions(config['input_positions']) in true_input_positions",
                init.loc)


def _pos(d):
    return '{%s}' % ', '.join('%s: %s' % (k, d[k]) for k in ('lower', 'upper', 'summand', 'summation_variable') if k in d)


def _show4(res, log):
    text = _show(res)
    if log:
        text += ' after check_math_response(%s, %s)' % (log[0][0], log[0][1])
    return text


# ------------------------------------------------------------------------ self-test
MUTANTS = [
    Mutant('upper-not-inclusive', IG, "range(int(lower), int(upper + 1), delta)", "range(int(lower), int(upper), delta)", 'D1'),
    Mutant('swap-removed', IG, "        if lower > upper:\n            lower, upper = upper, lower\n", "", 'D1'),
    Mutant('parity-odd-test', IG, "            if abs(lower % 2) != 1:", "            if abs(lower % 2) != 0:", 'D1'),
    Mutant('parity-even-step-back', IG, "            if abs(lower % 2) != 0:\n                lower += 1", "            if abs(lower % 2) != 0:\n                lower -= 1", 'D1'),
    Mutant('odd-step-one', IG, "            # Odd numbers only\n            delta = 2", "            # Odd numbers only\n            delta = 1", 'D1'),
    Mutant('minus-inf-sign', IG, "            lower = -infty_val", "            lower = infty_val", 'D1'),
    Mutant('plus-inf-not-replaced', IG, "        if upper == float('inf'):\n            upper = infty_val\n", "", 'D1'),
    Mutant('inf-inf-returns', IG, "            raise SummationError('Cannot sum from infty to infty.')", "            return 0", 'D1'),
    Mutant('first-term-dropped', IG, "range(int(lower), int(upper + 1), delta)", "range(int(lower) + delta, int(upper + 1), delta)", 'D1'),
    Mutant('odd-even-exchanged', IG, "        if even_odd == 1:\n            # Odd numbers only", "        if even_odd == 2:\n            # Odd numbers only", 'D1'),
    Mutant('always-fact-cutoff', IG, "            infty_val = self.config['infty_val']", "            infty_val = self.config['infty_val_fact']", 'D2'),
    Mutant('factorial-alias-forgotten', IG, "        if 'fact' in used_funcs or 'factorial' in used_funcs:", "        if 'fact' in used_funcs:", 'D2'),
    Mutant('cutoffs-exchanged', IG, "        if 'fact' in used_funcs or 'factorial' in used_funcs:", "        if not ('fact' in used_funcs or 'factorial' in used_funcs):", 'D2'),
    Mutant('lower-integer-check-dropped', IG, "        if abs(lower) != float('inf') and int(lower) != lower:\n            raise SummationError('Lower summation limit does not evaluate to an integer.')\n", "", 'D2'),
    Mutant('upper-inf-guard-dropped', IG, "        if abs(upper) != float('inf') and int(upper) != upper:", "        if int(upper) != upper:", 'D2'),
    Mutant('complex-upper-unchecked', IG, "        if isinstance(lower, complex) or isinstance(upper, complex):\n            raise SummationError(",
           "        if isinstance(lower, complex):\n            raise SummationError(", 'D2'),
    Mutant('scope-conflict-unchecked', IG, "        if summation_var in varscope:\n            msg = 'Summation variable {} conflicts with another previously-defined variable.'\n            raise SummationError(msg.format(summation_var))\n", "", 'D2'),
    Mutant('limit-error-class', IG, "            raise SummationError('Upper summation limit does not evaluate to an integer.')",
           "            raise ValueError('Upper summation limit does not evaluate to an integer.')", 'D2'),
    Mutant('index-left-in-scope', IG, "            del varscope[summation_var]\n            return value", "            return value", 'D2'),
    Mutant('even-odd-ignored', IG, "self.perform_summation(eval_summand, lower, upper, self.config['even_odd'], infty_val)",
           "self.perform_summation(eval_summand, lower, upper, 0, infty_val)", 'D2'),
    Mutant('author-handler-narrowed', IG, "            except MITxError as error:", "            except SummationError as error:", 'D3'),
    Mutant('author-error-class', IG, "                msg = \"Summation Error with author's stored answer: {}\"\n                raise ConfigError(msg.format(str(error)))",
           "                msg = \"Summation Error with author's stored answer: {}\"\n                raise SummationError(msg.format(str(error)))", 'D3'),
    Mutant('instructor-vars-kept', IG, "            for key in var_blacklist:\n                del varlist[key]\n                \n            # Evaluate sums.", "            # Evaluate sums.", 'D3'),
    Mutant('sample-not-loaded', IG, "            varlist.update(var_samples[i])\n\n            # Evaluate sums. Error handling here is to catch author errors.",
           "            # Evaluate sums. Error handling here is to catch author errors.", 'D3'),
    Mutant('results-exchanged', IG, "instructor_eval=expected_eval)\n\n        return instructor_evals, student_evals, used_funcs",
           "instructor_eval=expected_eval)\n\n        return student_evals, instructor_evals, used_funcs", 'D3'),
    Mutant('author-value-overwritten', IG, "            instructor_evals.append(expected_eval)", "            instructor_evals.append(student_eval)", 'D3'),
    Mutant('blank-test-never-true', IG, "            if structured_input[key] == '':", "            if structured_input[key] is None:", 'D4'),
    Mutant('dummy-validation-dropped', IG, "        self.validate_user_dummy_variable(structured_input[self.wording['adjective'] + '_variable'])\n", "", 'D4'),
    Mutant('blank-check-after-dummy-validation', IG,
           "        for key in structured_input:\n            if structured_input[key] == '':\n                msg = \"Please enter a value for {key}, it cannot be empty.\"\n                raise MissingInput(msg.format(key=key))\n        self.validate_user_dummy_variable(structured_input[self.wording['adjective'] + '_variable'])\n",
           "        self.validate_user_dummy_variable(structured_input[self.wording['adjective'] + '_variable'])\n        for key in structured_input:\n            if structured_input[key] == '':\n                msg = \"Please enter a value for {key}, it cannot be empty.\"\n                raise MissingInput(msg.format(key=key))\n", 'D4'),
    Mutant('count-check-one-sided', IG, "        if len(used_inputs) != len(student_input):", "        if len(used_inputs) < len(student_input):", 'D4'),
    Mutant('blank-error-class', IG, "                raise MissingInput(msg.format(key=key))", "                raise ConfigError(msg.format(key=key))", 'D4'),
    Mutant('positions-zero-based-range', IG, "set(range(1, len(used_positions_set) + 1))", "set(range(len(used_positions_set)))", 'D4'),
    Mutant('positions-not-shifted', IG, "            key: input_positions[key] - 1  # Turn", "            key: input_positions[key]  # Turn", 'D4'),
    Mutant('constant-as-dummy-allowed', IG, "        if varname in self.functions or varname in self.random_funcs or varname in self.constants:",
           "        if varname in self.functions or varname in self.random_funcs:", 'D4'),
    Mutant('repeated-positions-allowed', IG, "        if len(used_positions_list) > len(used_positions_set):\n            raise ConfigError(\"Key input_positions has repeated indices.\")\n", "", 'D4'),
]

BENIGN = [
    Benign('limits-sorted-with-min-max', IG, "        if lower > upper:\n            lower, upper = upper, lower\n",
           "        lower, upper = min(lower, upper), max(lower, upper)\n"),
    Benign('parity-without-abs', IG, "            if abs(lower % 2) != 1:", "            if lower % 2 != 1:"),
    Benign('explicit-accumulation-loop', IG, "        evals = [eval_summand(n) for n in range(int(lower), int(upper + 1), delta)]\n        result = sum(evals)\n",
           "        result = 0\n        for n in range(int(lower), int(upper + 1), delta):\n            result = result + eval_summand(n)\n"),
    Benign('factorial-test-as-set-intersection', IG, "        if 'fact' in used_funcs or 'factorial' in used_funcs:",
           "        if used_funcs & {'fact', 'factorial'}:"),
    Benign('instructor-vars-popped', IG, "            for key in var_blacklist:\n                del varlist[key]\n                \n            # Evaluate sums.",
           "            for key in var_blacklist:\n                varlist.pop(key)\n\n            # Evaluate sums."),
    Benign('blank-loop-over-items', IG, "        for key in structured_input:\n            if structured_input[key] == '':",
           "        for key, entered in structured_input.items():\n            if entered == '':"),
    Benign('integer-test-by-modulo', IG, "        if abs(lower) != float('inf') and int(lower) != lower:",
           "        if abs(lower) != float('inf') and lower % 1 != 0:"),
]
