"""Tiny evaluator over a *model* (finite sample values chosen by the checker) for guard and
set-algebra expressions.  It interprets AST nodes itself; nothing of the analysed library is
executed.  Unsupported constructs raise Unsupported (-> undecided)."""
import ast
import operator


class Unsupported(Exception):
    pass


class ArrayTruth(Exception):
    """A model array was compared / used where real numpy would yield an array with no truth value."""


class ArrayModel(object):
    """Stands for a numpy array with more than one element (only its 'is it a number' answer is modelled)."""

    def __repr__(self):
        return '<array>'


NUMBER_TYPES = {'Number', 'Real', 'Complex', 'float', 'int', 'complex'}


CMP = {ast.Eq: operator.eq, ast.NotEq: operator.ne, ast.Lt: operator.lt, ast.LtE: operator.le, ast.Gt: operator.gt,
       ast.GtE: operator.ge, ast.Is: operator.is_, ast.IsNot: operator.is_not,
       ast.In: lambda a, b: a in b, ast.NotIn: lambda a, b: a not in b}
SET_METHODS = {'union', 'difference', 'intersection', 'symmetric_difference', 'copy'}
BIN = {ast.BitOr: operator.or_, ast.Sub: operator.sub, ast.BitAnd: operator.and_, ast.BitXor: operator.xor}


def ev(node, env):
    if isinstance(node, ast.Constant):
        return node.value
    if isinstance(node, (ast.Attribute, ast.Subscript)):
        key = ast.unparse(node)
        if key in env:
            return env[key]
    if isinstance(node, ast.Dict):
        if any(k is None for k in node.keys):
            raise Unsupported('dict unpacking')
        return {ev(k, env): ev(v, env) for k, v in zip(node.keys, node.values)}
    if isinstance(node, ast.DictComp) and len(node.generators) == 1 and isinstance(node.generators[0].target, ast.Name):
        g = node.generators[0]
        out = {}
        for item in ev(g.iter, env):
            e2 = dict(env)
            e2[g.target.id] = item
            if all(ev(c, e2) for c in g.ifs):
                out[ev(node.key, e2)] = ev(node.value, e2)
        return out
    if isinstance(node, ast.Name):
        if node.id in env:
            return env[node.id]
        mod = env.get('__module__')
        if mod is not None and len(mod.assigns.get(node.id, [])) == 1:
            return ev(mod.assigns[node.id][0], {'__module__': mod})
        # workaround for a rename slip of sa/normalize.py: inside a nested def of an inlined helper the uses of a
        # parameter are renamed (`x_inl1`) while the parameter itself keeps its name (`x`)
        import re as _re
        m = _re.match(r'^(.*)_inl\d+$', node.id)
        if m and m.group(1) in env:
            return env[m.group(1)]
        raise Unsupported('name %s' % node.id)
    if isinstance(node, ast.Attribute) and node.attr in ('inf', 'infty', 'Inf', 'Infinity') and isinstance(node.value, ast.Name) \
            and node.value.id in ('np', 'numpy', 'math'):
        return float('inf')
    if isinstance(node, (ast.List, ast.Tuple, ast.Set)):
        vals = [ev(e, env) for e in node.elts]
        return vals if isinstance(node, ast.List) else (tuple(vals) if isinstance(node, ast.Tuple) else set(vals))
    if isinstance(node, ast.Subscript):
        base = ev(node.value, env)
        if isinstance(node.slice, ast.Slice):
            sl = node.slice
            key = slice(*[None if p is None else ev(p, env) for p in (sl.lower, sl.upper, sl.step)])
            if not isinstance(base, (list, tuple, str)):
                raise Unsupported('slice of a non-sequence')
        else:
            key = ev(node.slice, env)
        try:
            return base[key]
        except Exception:
            raise Unsupported('subscript')
    if isinstance(node, ast.UnaryOp) and isinstance(node.op, ast.Not):
        return not ev(node.operand, env)
    if isinstance(node, ast.UnaryOp) and isinstance(node.op, ast.USub):
        v = ev(node.operand, env)
        if isinstance(v, (int, float)) and not isinstance(v, bool):
            return -v
        raise Unsupported('negation')
    if isinstance(node, ast.BoolOp):
        if isinstance(node.op, ast.And):
            val = True
            for v in node.values:
                val = ev(v, env)
                if not val:
                    return val
            return val
        val = False
        for v in node.values:
            val = ev(v, env)
            if val:
                return val
        return val
    if isinstance(node, ast.Compare):
        left = ev(node.left, env)
        for op, c in zip(node.ops, node.comparators):
            right = ev(c, env)
            if type(op) not in CMP:
                raise Unsupported('comparison')
            if (isinstance(left, ArrayModel) or isinstance(right, ArrayModel)) and not isinstance(op, (ast.Is, ast.IsNot)):
                raise ArrayTruth()
            try:
                if not CMP[type(op)](left, right):
                    return False
            except TypeError:
                raise Unsupported('comparison of incomparable model values')
            left = right
        return True
    if isinstance(node, ast.BinOp) and isinstance(node.op, ast.Add):
        a, b = ev(node.left, env), ev(node.right, env)
        if isinstance(a, list) and isinstance(b, list):
            return a + b
        if isinstance(a, str) and isinstance(b, str):
            return a + b
        if isinstance(a, (int, float)) and isinstance(b, (int, float)) and not isinstance(a, bool) and not isinstance(b, bool):
            return a + b
        raise Unsupported('addition of model values')
    if isinstance(node, ast.BinOp) and isinstance(node.op, ast.Sub):
        a, b = ev(node.left, env), ev(node.right, env)
        if isinstance(a, (int, float)) and isinstance(b, (int, float)) and not isinstance(a, bool) and not isinstance(b, bool):
            return a - b
        if not (isinstance(a, (set, frozenset)) and isinstance(b, (set, frozenset))):
            raise Unsupported('subtraction of model values')
        return a - b
    if isinstance(node, ast.BinOp) and type(node.op) in BIN:
        a, b = ev(node.left, env), ev(node.right, env)
        if isinstance(a, (set, frozenset)) and isinstance(b, (set, frozenset)):
            return BIN[type(node.op)](a, b)
        raise Unsupported('binary operator on non-sets')
    if isinstance(node, ast.Call):
        # model callables supplied by the checker (by local name or by dotted text)
        target = None
        if isinstance(node.func, ast.Name) and callable(env.get(node.func.id)):
            target = env[node.func.id]
        elif isinstance(node.func, ast.Attribute) and callable(env.get(ast.unparse(node.func))):
            target = env[ast.unparse(node.func)]
        if target is not None:
            args, kw = _call_args(node, env)
            return target(*args, **kw)
        # unreviewed helper methods of the same class, interpreted on the model
        if isinstance(node.func, ast.Attribute) and isinstance(node.func.value, ast.Name) and node.func.value.id == env.get('__self__') \
                and node.func.attr in env.get('__methods__', {}):
            fn = env['__methods__'][node.func.attr]
            args, kw = _call_args(node, env)
            static = any(ast.unparse(d) == 'staticmethod' for d in fn.decorator_list)
            inner = {k: v for k, v in env.items() if k.startswith('__') or k.startswith(env['__self__'] + '.')}
            return _apply(fn, ([] if static else [env.get(env['__self__'])]) + args, kw, inner)
        if isinstance(node.func, ast.Name) and node.func.id in ('max', 'min') and node.func.id not in env:
            args, kw = _call_args(node, env)
            if set(kw) - {'key', 'default'}:
                raise Unsupported('max/min keywords')
            try:
                return (max if node.func.id == 'max' else min)(*args, **kw)
            except ValueError:
                raise ModelRaise(cls='ValueError')
            except TypeError:
                raise ModelRaise(cls='TypeError')
        if isinstance(node.func, ast.Name) and node.func.id in env.get('__funcs__', {}) and node.func.id not in env:
            fn = env['__funcs__'][node.func.id]
            if fn.decorator_list:
                raise Unsupported('decorated function %s' % fn.name)
            args, kw = _call_args(node, env)
            return _apply(fn, args, kw, {k: v for k, v in env.items() if k.startswith('__')})
        if isinstance(node.func, ast.Attribute) and node.func.attr in STR_METHODS:
            recv = ev(node.func.value, env)
            if isinstance(recv, str):
                try:
                    return getattr(recv, node.func.attr)(*[ev(x, env) for x in node.args],
                                                           **{k.arg: ev(k.value, env) for k in node.keywords})
                except (TypeError, ValueError, KeyError, IndexError) as e:
                    raise ModelRaise(cls=type(e).__name__)
        if isinstance(node.func, ast.Name) and node.func.id == 'isinstance' and len(node.args) == 2 and '__isinstance__' in env:
            tn = [ast.unparse(t).split('.')[-1] for t in (node.args[1].elts if isinstance(node.args[1], ast.Tuple) else [node.args[1]])]
            res = env['__isinstance__'](ev(node.args[0], env), tn)
            if res is not None:
                return res
        if isinstance(node.func, ast.Name) and node.func.id in ('zip', 'enumerate', 'range', 'reversed', 'iter') \
                and node.func.id not in env:
            args = [ev(a, env) for a in node.args]
            kw = {k.arg: ev(k.value, env) for k in node.keywords}
            try:
                if node.func.id == 'zip' and not kw:
                    return list(zip(*args))
                if node.func.id == 'enumerate' and set(kw) <= {'start'}:
                    return list(enumerate(*args, **kw))
                if node.func.id == 'range' and not kw:
                    return list(range(*args))
                if node.func.id in ('reversed', 'iter') and not kw and len(args) == 1:
                    return list(reversed(args[0])) if node.func.id == 'reversed' else list(args[0])
            except TypeError:
                raise Unsupported(node.func.id)
            raise Unsupported(node.func.id)
        if isinstance(node.func, ast.Name) and node.func.id in ('set', 'list', 'frozenset', 'sorted', 'tuple') and not node.keywords:
            if not node.args:
                return {'set': set(), 'list': [], 'frozenset': frozenset(), 'sorted': [], 'tuple': ()}[node.func.id]
            v = ev(node.args[0], env)
            try:
                return {'set': set, 'list': list, 'frozenset': frozenset, 'sorted': sorted, 'tuple': tuple}[node.func.id](v)
            except TypeError:
                raise Unsupported('conversion')
        if isinstance(node.func, ast.Name) and node.func.id == 'float' and len(node.args) == 1 and not node.keywords:
            v = ev(node.args[0], env)
            try:
                return float(v)
            except ValueError:
                raise ModelRaise(cls='ValueError')
            except TypeError:
                raise ModelRaise(cls='TypeError')
        if isinstance(node.func, ast.Name) and node.func.id in ('any', 'all') and len(node.args) == 1 and not node.keywords:
            vals = ev(node.args[0], env)
            return any(vals) if node.func.id == 'any' else all(vals)
        if isinstance(node.func, ast.Name) and node.func.id == 'abs' and len(node.args) == 1:
            v = ev(node.args[0], env)
            if isinstance(v, (int, float)) and not isinstance(v, bool):
                return abs(v)
            raise Unsupported('abs of a non-number')
        if isinstance(node.func, (ast.Name, ast.Attribute)) and (node.func.id if isinstance(node.func, ast.Name) else node.func.attr) \
                in ('isinf', 'isfinite', 'isnan') and len(node.args) == 1:
            import math
            v = ev(node.args[0], env)
            if isinstance(v, ArrayModel):
                raise ArrayTruth()
            if isinstance(v, (int, float)) and not isinstance(v, bool):
                return getattr(math, node.func.id if isinstance(node.func, ast.Name) else node.func.attr)(v)
            raise Unsupported('isinf of a non-number')
        if isinstance(node.func, ast.Name) and node.func.id == 'isinstance' and len(node.args) == 2:
            tnames = [ast.unparse(t).split('.')[-1] for t in (node.args[1].elts if isinstance(node.args[1], ast.Tuple) else [node.args[1]])]
            if all(t in NUMBER_TYPES | {'str'} for t in tnames):
                v = ev(node.args[0], env)
                isnum = isinstance(v, (int, float, complex)) and not isinstance(v, bool)
                return (isnum and any(t in NUMBER_TYPES for t in tnames)) or (isinstance(v, str) and 'str' in tnames)
        if isinstance(node.func, ast.Name) and node.func.id == 'len' and len(node.args) == 1:
            return len(ev(node.args[0], env))
        if isinstance(node.func, ast.Name) and node.func.id == 'bool' and len(node.args) == 1:
            return bool(ev(node.args[0], env))
        if isinstance(node.func, ast.Name) and node.func.id == 'isinstance' and len(node.args) == 2 \
                and isinstance(node.args[1], ast.Name) and node.args[1].id in ('list', 'tuple', 'set', 'dict', 'str'):
            return isinstance(ev(node.args[0], env), {'list': list, 'tuple': tuple, 'set': set, 'dict': dict, 'str': str}[node.args[1].id])
        if isinstance(node.func, ast.Attribute) and node.func.attr in ('keys', 'values', 'items', 'copy') and not node.args \
                and not node.keywords:
            recv = ev(node.func.value, env)
            if isinstance(recv, dict):
                return {'keys': lambda: list(recv.keys()), 'values': lambda: list(recv.values()),
                        'items': lambda: list(recv.items()), 'copy': lambda: dict(recv)}[node.func.attr]()
            if isinstance(recv, list) and node.func.attr == 'copy':
                return list(recv)
            if not isinstance(recv, (set, frozenset)):
                raise Unsupported('method %s' % node.func.attr)
        if isinstance(node.func, ast.Attribute) and node.func.attr in SET_METHODS and not node.keywords:
            recv = ev(node.func.value, env)
            if not isinstance(recv, (set, frozenset)):
                raise Unsupported('set method on a non-set')
            args = [ev(a, env) for a in node.args]
            try:
                return getattr(set(recv), node.func.attr)(*args)
            except TypeError:
                raise Unsupported('set method arguments')
        raise Unsupported('call %s' % ast.unparse(node)[:40])
    if isinstance(node, (ast.ListComp, ast.SetComp, ast.GeneratorExp)):
        out = []

        def gen(i, e):
            if i == len(node.generators):
                out.append(ev(node.elt, e))
                return
            g = node.generators[i]
            for item in ev(g.iter, e):
                e2 = dict(e)
                _bind(g.target, item, e2)
                if all(ev(c, e2) for c in g.ifs):
                    gen(i + 1, e2)
        gen(0, env)
        return set(out) if isinstance(node, ast.SetComp) else out
    if isinstance(node, ast.Lambda):
        a = node.args
        if a.vararg or a.kwarg or a.kwonlyargs or a.posonlyargs or a.defaults:
            raise Unsupported('lambda signature')
        names = [x.arg for x in a.args]

        def fn(*vals):
            if len(vals) != len(names):
                raise Unsupported('lambda arity')
            e2 = dict(env)
            e2.update(zip(names, vals))
            return ev(node.body, e2)
        return fn
    if isinstance(node, ast.JoinedStr):
        out = []
        for part in node.values:
            if isinstance(part, ast.Constant):
                out.append(str(part.value))
            elif isinstance(part, ast.FormattedValue):
                v = ev(part.value, env)
                if part.conversion == 114:
                    v = repr(v)
                elif part.conversion == 115:
                    v = str(v)
                elif part.conversion == 97:
                    v = ascii(v)
                spec = ev(part.format_spec, env) if part.format_spec is not None else ''
                try:
                    out.append(format(v, spec))
                except (TypeError, ValueError) as e:
                    raise ModelRaise(cls=type(e).__name__)
            else:
                raise Unsupported('f-string part')
        return ''.join(out)
    if isinstance(node, ast.IfExp):
        return ev(node.body, env) if ev(node.test, env) else ev(node.orelse, env)
    raise Unsupported(type(node).__name__)


def _call_args(node, env):
    args, kw = [], {}
    for a in node.args:
        if isinstance(a, ast.Starred):
            args.extend(list(ev(a.value, env)))
        else:
            args.append(ev(a, env))
    for k in node.keywords:
        if k.arg is None:
            d = ev(k.value, env)
            if not isinstance(d, dict):
                raise Unsupported('** of a non-dict')
            kw.update(d)
        else:
            kw[k.arg] = ev(k.value, env)
    return args, kw


def _apply(fn, args, kw, inner):
    a = fn.args
    if a.vararg or a.kwonlyargs or a.posonlyargs:
        raise Unsupported('signature of %s' % fn.name)
    names = [x.arg for x in a.args]
    defaults = dict(zip(names[len(names) - len(a.defaults):], a.defaults))
    kw = dict(kw)
    if len(args) > len(names):
        raise Unsupported('too many arguments for %s' % fn.name)
    for i, n in enumerate(names):
        if i < len(args):
            inner[n] = args[i]
        elif n in kw:
            inner[n] = kw.pop(n)
        elif n in defaults:
            inner[n] = ev(defaults[n], inner)
        else:
            raise Unsupported('missing argument %s' % n)
    if a.kwarg:
        inner[a.kwarg.arg] = kw
    elif kw:
        raise Unsupported('unexpected keyword arguments')
    if names and '__self__' in inner and inner.get('__selfobj__') is not None and inner[names[0]] is inner['__selfobj__']:
        inner['__self__'] = names[0]
    return call(fn, inner)[1]


def _bind(target, value, env):
    if isinstance(target, ast.Name):
        env[target.id] = value
    elif isinstance(target, ast.Subscript):
        key = ast.unparse(target)
        base = ev(target.value, env)
        idx_ = ev(target.slice, env)
        if isinstance(base, (dict, list)):
            try:
                base[idx_] = value
            except (IndexError, TypeError):
                raise Unsupported('subscript store')
        else:
            raise Unsupported('subscript store on %s' % type(base).__name__)
    elif isinstance(target, (ast.Tuple, ast.List)) and all(isinstance(e, ast.Name) for e in target.elts):
        vals = list(value)
        if len(vals) != len(target.elts):
            raise Unsupported('unpacking')
        for e, v in zip(target.elts, vals):
            env[e.id] = v
    else:
        raise Unsupported('assignment target')


class ModelRaise(Exception):
    """An exception raised while interpreting on the model: by a `raise` statement (stmt set) or by a modelled
    builtin (e.g. float('abc') -> ValueError)."""

    def __init__(self, stmt=None, cls=None):
        Exception.__init__(self, 'raise')
        self.stmt = stmt
        if cls is None and stmt is not None and stmt.exc is not None:
            e = stmt.exc.func if isinstance(stmt.exc, ast.Call) else stmt.exc
            cls = e.attr if isinstance(e, ast.Attribute) else (e.id if isinstance(e, ast.Name) else None)
        self.cls = cls


BUILTIN_EXC = {'ValueError', 'TypeError', 'KeyError', 'IndexError', 'ZeroDivisionError', 'OverflowError', 'AttributeError'}
STR_METHODS = {'strip', 'lstrip', 'rstrip', 'endswith', 'startswith', 'lower', 'upper', 'replace', 'format', 'split', 'join'}


def _handler_matches(h, exc):
    if h.type is None:
        return True
    names = [ast.unparse(t).split('.')[-1] for t in (h.type.elts if isinstance(h.type, ast.Tuple) else [h.type])]
    return exc.cls in names or 'Exception' in names or 'BaseException' in names


class _Break(Exception):
    pass


class _Continue(Exception):
    pass


class _Return(Exception):
    def __init__(self, value, stmt):
        Exception.__init__(self, 'return')
        self.value = value
        self.stmt = stmt


def call(fn_node, env):
    """Run a function body on model values: ('return', value, stmt) | ('fall', None, None); ModelRaise propagates."""
    try:
        run(fn_node.body, env)
    except _Return as r:
        return 'return', r.value, r.stmt
    return 'fall', None, None


def run(stmts, env):
    """Execute a straight-line/loop fragment on model values (the checker's own interpretation)."""
    for s in stmts:
        if isinstance(s, ast.Return):
            raise _Return(ev(s.value, env) if s.value is not None else None, s)
        if isinstance(s, ast.Raise):
            if s.exc is None and env.get('__exc__') is not None:
                raise env['__exc__']
            raise ModelRaise(s)
        if isinstance(s, ast.Try) and not s.finalbody:
            try:
                run(s.body, env)
            except ModelRaise as exc:
                hs = [h for h in s.handlers if _handler_matches(h, exc)]
                if not hs:
                    raise
                saved = env.get('__exc__')
                env['__exc__'] = exc
                if hs[0].name:
                    env[hs[0].name] = exc
                try:
                    run(hs[0].body, env)
                finally:
                    env['__exc__'] = saved
            else:
                run(s.orelse, env)
            continue
        if isinstance(s, ast.FunctionDef):
            def closure(*args, _fn=s, _env=env, **kw):
                return _apply(_fn, list(args), kw, dict(_env))
            env[s.name] = closure
            continue
        if isinstance(s, ast.Break):
            raise _Break()
        if isinstance(s, ast.Continue):
            raise _Continue()
        if isinstance(s, ast.AugAssign) and isinstance(s.target, ast.Name) and isinstance(s.op, (ast.Add, ast.Sub)):
            cur = ev(s.target, env)
            if isinstance(cur, (int, float)) and not isinstance(cur, bool):
                val = ev(s.value, env)
                if not (isinstance(val, (int, float)) and not isinstance(val, bool)):
                    raise Unsupported('augmented assignment')
                env[s.target.id] = cur + val if isinstance(s.op, ast.Add) else cur - val
                continue
        if isinstance(s, ast.Pass) or (isinstance(s, ast.Expr) and isinstance(s.value, ast.Constant)):
            continue
        if isinstance(s, ast.Assign) and len(s.targets) == 1:
            _bind(s.targets[0], ev(s.value, env), env)
        elif isinstance(s, ast.AugAssign) and isinstance(s.target, ast.Name) and isinstance(s.op, (ast.Add, ast.BitOr)):
            cur = ev(s.target, env)
            val = ev(s.value, env)
            if isinstance(cur, list) and isinstance(s.op, ast.Add):
                cur.extend(list(val))           # in place, like list +=
            elif isinstance(cur, set) and isinstance(s.op, ast.BitOr):
                cur |= set(val)
            else:
                raise Unsupported('augmented assignment')
        elif isinstance(s, ast.If):
            run(s.body if ev(s.test, env) else s.orelse, env)
        elif isinstance(s, ast.For) and not s.orelse:
            for item in list(ev(s.iter, env)):
                _bind(s.target, item, env)
                try:
                    run(s.body, env)
                except _Break:
                    break
                except _Continue:
                    continue
        elif isinstance(s, ast.Expr) and isinstance(s.value, ast.Call) and isinstance(s.value.func, ast.Attribute) \
                and s.value.func.attr in ('append', 'extend', 'add', 'update', 'insert') and not s.value.keywords:
            recv = ev(s.value.func.value, env)
            args = [ev(a, env) for a in s.value.args]
            if isinstance(recv, list) and s.value.func.attr == 'append' and len(args) == 1:
                recv.append(args[0])
            elif isinstance(recv, list) and s.value.func.attr == 'extend' and len(args) == 1:
                recv.extend(list(args[0]))
            elif isinstance(recv, list) and s.value.func.attr == 'insert' and len(args) == 2:
                recv.insert(args[0], args[1])
            elif isinstance(recv, set) and s.value.func.attr == 'add' and len(args) == 1:
                recv.add(args[0])
            elif isinstance(recv, set) and s.value.func.attr == 'update' and len(args) == 1:
                recv.update(args[0])
            else:
                raise Unsupported('call %s' % ast.unparse(s.value)[:40])
        else:
            raise Unsupported('statement %s' % type(s).__name__)
