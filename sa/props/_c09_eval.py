"""Tiny evaluator over a *model* (finite sample values chosen by the checker) for guard and
set-algebra expressions.  It interprets AST nodes itself; nothing of the analysed library is
executed.  Unsupported constructs raise Unsupported (-> undecided)."""
import ast
import operator


class Unsupported(Exception):
    pass


CMP = {ast.Eq: operator.eq, ast.NotEq: operator.ne, ast.Lt: operator.lt, ast.LtE: operator.le, ast.Gt: operator.gt,
       ast.GtE: operator.ge, ast.Is: operator.is_, ast.IsNot: operator.is_not,
       ast.In: lambda a, b: a in b, ast.NotIn: lambda a, b: a not in b}
SET_METHODS = {'union', 'difference', 'intersection', 'symmetric_difference', 'copy'}
BIN = {ast.BitOr: operator.or_, ast.Sub: operator.sub, ast.BitAnd: operator.and_, ast.BitXor: operator.xor}


def ev(node, env):
    if isinstance(node, ast.Constant):
        return node.value
    if isinstance(node, ast.Name):
        if node.id in env:
            return env[node.id]
        raise Unsupported('name %s' % node.id)
    if isinstance(node, (ast.List, ast.Tuple, ast.Set)):
        vals = [ev(e, env) for e in node.elts]
        return vals if isinstance(node, ast.List) else (tuple(vals) if isinstance(node, ast.Tuple) else set(vals))
    if isinstance(node, ast.Subscript):
        base = ev(node.value, env)
        key = ev(node.slice, env)
        try:
            return base[key]
        except Exception:
            raise Unsupported('subscript')
    if isinstance(node, ast.UnaryOp) and isinstance(node.op, ast.Not):
        return not ev(node.operand, env)
    if isinstance(node, ast.BoolOp):
        if isinstance(node.op, ast.And):
            val = True
            for v in node.values:
                val = ev(v, env)
                if not val:
                    return val
            return val
        val = False
        for v in node.values:
            val = ev(v, env)
            if val:
                return val
        return val
    if isinstance(node, ast.Compare):
        left = ev(node.left, env)
        for op, c in zip(node.ops, node.comparators):
            right = ev(c, env)
            if type(op) not in CMP:
                raise Unsupported('comparison')
            try:
                if not CMP[type(op)](left, right):
                    return False
            except TypeError:
                raise Unsupported('comparison of incomparable model values')
            left = right
        return True
    if isinstance(node, ast.BinOp) and type(node.op) in BIN:
        a, b = ev(node.left, env), ev(node.right, env)
        if isinstance(a, (set, frozenset)) and isinstance(b, (set, frozenset)):
            return BIN[type(node.op)](a, b)
        raise Unsupported('binary operator on non-sets')
    if isinstance(node, ast.Call):
        if isinstance(node.func, ast.Name) and node.func.id in ('set', 'list', 'frozenset', 'sorted', 'tuple') and not node.keywords:
            if not node.args:
                return {'set': set(), 'list': [], 'frozenset': frozenset(), 'sorted': [], 'tuple': ()}[node.func.id]
            v = ev(node.args[0], env)
            try:
                return {'set': set, 'list': list, 'frozenset': frozenset, 'sorted': sorted, 'tuple': tuple}[node.func.id](v)
            except TypeError:
                raise Unsupported('conversion')
        if isinstance(node.func, ast.Name) and node.func.id == 'len' and len(node.args) == 1:
            return len(ev(node.args[0], env))
        if isinstance(node.func, ast.Name) and node.func.id == 'bool' and len(node.args) == 1:
            return bool(ev(node.args[0], env))
        if isinstance(node.func, ast.Name) and node.func.id == 'isinstance' and len(node.args) == 2 \
                and isinstance(node.args[1], ast.Name) and node.args[1].id in ('list', 'tuple', 'set', 'dict', 'str'):
            return isinstance(ev(node.args[0], env), {'list': list, 'tuple': tuple, 'set': set, 'dict': dict, 'str': str}[node.args[1].id])
        if isinstance(node.func, ast.Attribute) and node.func.attr in SET_METHODS and not node.keywords:
            recv = ev(node.func.value, env)
            if not isinstance(recv, (set, frozenset)):
                raise Unsupported('set method on a non-set')
            args = [ev(a, env) for a in node.args]
            try:
                return getattr(set(recv), node.func.attr)(*args)
            except TypeError:
                raise Unsupported('set method arguments')
        raise Unsupported('call %s' % ast.unparse(node)[:40])
    if isinstance(node, (ast.ListComp, ast.SetComp, ast.GeneratorExp)) and len(node.generators) == 1 \
            and isinstance(node.generators[0].target, ast.Name):
        g = node.generators[0]
        out = []
        for item in ev(g.iter, env):
            e2 = dict(env)
            e2[g.target.id] = item
            if all(ev(c, e2) for c in g.ifs):
                out.append(ev(node.elt, e2))
        return set(out) if isinstance(node, ast.SetComp) else out
    if isinstance(node, ast.IfExp):
        return ev(node.body, env) if ev(node.test, env) else ev(node.orelse, env)
    raise Unsupported(type(node).__name__)
