"""Finite-domain evaluation of GUARDS and SET ALGEBRA over opaque data (used by C04 / C09).

What this is for -- and nothing else:
  * truth of a branch condition on the COMPLETE finite domain of the things it tests: the three `ok` values of an otherwise
    opaque result record, isinstance classes (number / array / str), order types of one number against the constants or
    symbols it is compared with (a count against failable_evals, a value against +-inf, a percentage against 0, nan as the
    unordered class), emptiness / length classes of opaque sequences;
  * the Venn-region value of set-algebra expressions (union / difference / membership filters) over small symbolic
    universes, and of the few straight-line statements that build such a set (the black-list of hidden variable names).

It never interprets a function of the analysed library as a whole, never calls into it, and no result of a library
computation (grade, message, string processing, numeric value) is produced here: leaves of decision paths are compared by
their normal FORM in the property modules.  Unsupported constructs raise Unsupported (-> undecided, exit 2).
"""
import ast
import operator


class Unsupported(Exception):
    pass


class ArrayTruth(Exception):
    """An array-class operand reached a comparison whose result would be an array without a truth value."""


class ArrayModel(object):
    """The isinstance class 'numpy array with several entries' (answers only: is it a Number? no)."""

    def __repr__(self):
        return '<array>'


NUMBER_TYPES = {'Number', 'Real', 'Complex', 'float', 'int', 'complex'}
CMP = {ast.Eq: operator.eq, ast.NotEq: operator.ne, ast.Lt: operator.lt, ast.LtE: operator.le, ast.Gt: operator.gt,
       ast.GtE: operator.ge, ast.Is: operator.is_, ast.IsNot: operator.is_not,
       ast.In: lambda a, b: a in b, ast.NotIn: lambda a, b: a not in b}
SET_METHODS = {'union', 'difference', 'intersection', 'symmetric_difference', 'copy'}
BIN = {ast.BitOr: operator.or_, ast.Sub: operator.sub, ast.BitAnd: operator.and_, ast.BitXor: operator.xor}


def _is_num(v):
    return isinstance(v, (int, float)) and not isinstance(v, bool)


def ev(node, env):
    if isinstance(node, ast.Constant):
        return node.value
    if isinstance(node, (ast.Attribute, ast.Subscript, ast.Call)):
        key = ast.unparse(node)
        if key in env:                      # e.g. "self.config['instructor_vars']" bound to a symbolic value by the caller
            return env[key]
    if isinstance(node, ast.Name):
        if node.id in env:
            return env[node.id]
        mod = env.get('__module__')
        if mod is not None and len(mod.assigns.get(node.id, [])) == 1:      # module-level constant such as _INFINITY
            return ev(mod.assigns[node.id][0], {'__module__': mod})
        raise Unsupported('name %s' % node.id)
    if isinstance(node, ast.Attribute) and node.attr in ('inf', 'infty', 'Inf', 'Infinity') and isinstance(node.value, ast.Name) \
            and node.value.id in ('np', 'numpy', 'math'):
        return float('inf')
    if isinstance(node, (ast.List, ast.Tuple, ast.Set)):
        vals = [ev(e, env) for e in node.elts]
        return vals if isinstance(node, ast.List) else (tuple(vals) if isinstance(node, ast.Tuple) else set(vals))
    if isinstance(node, ast.Dict):
        if any(k is None for k in node.keys):
            raise Unsupported('dict unpacking')
        return {ev(k, env): ev(v, env) for k, v in zip(node.keys, node.values)}
    if isinstance(node, ast.Subscript):
        base = ev(node.value, env)
        if isinstance(node.slice, ast.Slice):
            sl = node.slice
            key = slice(*[None if p is None else ev(p, env) for p in (sl.lower, sl.upper, sl.step)])
            if not isinstance(base, (list, tuple)):
                raise Unsupported('slice of a non-sequence')
        else:
            key = ev(node.slice, env)
        try:
            return base[key]
        except Exception:
            raise Unsupported('subscript')
    if isinstance(node, ast.UnaryOp) and isinstance(node.op, ast.Not):
        return not ev(node.operand, env)
    if isinstance(node, ast.UnaryOp) and isinstance(node.op, ast.USub):
        v = ev(node.operand, env)
        if _is_num(v):
            return -v
        raise Unsupported('negation')
    if isinstance(node, ast.BoolOp):
        val = isinstance(node.op, ast.And)
        for v in node.values:
            val = ev(v, env)
            if bool(val) != isinstance(node.op, ast.And):
                return val
        return val
    if isinstance(node, ast.Compare):
        left = ev(node.left, env)
        for op, c in zip(node.ops, node.comparators):
            right = ev(c, env)
            if type(op) not in CMP:
                raise Unsupported('comparison')
            if (isinstance(left, ArrayModel) or isinstance(right, ArrayModel)) and not isinstance(op, (ast.Is, ast.IsNot)):
                raise ArrayTruth()
            try:
                if not CMP[type(op)](left, right):
                    return False
            except TypeError:
                raise Unsupported('comparison of incomparable classes')
            left = right
        return True
    if isinstance(node, ast.BinOp) and isinstance(node.op, (ast.Add, ast.Sub)):
        a, b = ev(node.left, env), ev(node.right, env)
        if isinstance(a, list) and isinstance(b, list) and isinstance(node.op, ast.Add):
            return a + b
        if _is_num(a) and _is_num(b):
            return a + b if isinstance(node.op, ast.Add) else a - b        # counts / order-type representatives only
        if isinstance(a, (set, frozenset)) and isinstance(b, (set, frozenset)) and isinstance(node.op, ast.Sub):
            return a - b
        raise Unsupported('arithmetic on symbolic data')
    if isinstance(node, ast.BinOp) and type(node.op) in BIN:
        a, b = ev(node.left, env), ev(node.right, env)
        if isinstance(a, (set, frozenset)) and isinstance(b, (set, frozenset)):
            return BIN[type(node.op)](a, b)
        raise Unsupported('binary operator on non-sets')
    if isinstance(node, ast.Call):
        f = node.func
        name = f.id if isinstance(f, ast.Name) else None
        if name in ('set', 'list', 'frozenset', 'sorted', 'tuple') and not node.keywords:
            if not node.args:
                return {'set': set(), 'list': [], 'frozenset': frozenset(), 'sorted': [], 'tuple': ()}[name]
            v = ev(node.args[0], env)
            try:
                return {'set': set, 'list': list, 'frozenset': frozenset, 'sorted': sorted, 'tuple': tuple}[name](v)
            except TypeError:
                raise Unsupported('conversion')
        if name == 'len' and len(node.args) == 1:
            return len(ev(node.args[0], env))
        if name == 'bool' and len(node.args) == 1:
            return bool(ev(node.args[0], env))
        if name == 'float' and len(node.args) == 1 and isinstance(node.args[0], ast.Constant) \
                and str(node.args[0].value).strip('+-').lower() in ('inf', 'infinity'):
            return float(node.args[0].value)               # the constants +-inf a value is compared with
        if name in ('any', 'all') and len(node.args) == 1 and not node.keywords:
            vals = ev(node.args[0], env)
            return any(vals) if name == 'any' else all(vals)
        if (name or (f.attr if isinstance(f, ast.Attribute) else None)) in ('isinf', 'isfinite', 'isnan') and len(node.args) == 1:
            import math
            v = ev(node.args[0], env)
            if isinstance(v, ArrayModel):
                raise ArrayTruth()
            if _is_num(v):
                return getattr(math, name or f.attr)(v)
            raise Unsupported('isinf of a non-number')
        if name == 'isinstance' and len(node.args) == 2:
            tnames = [ast.unparse(t).split('.')[-1] for t in (node.args[1].elts if isinstance(node.args[1], ast.Tuple) else [node.args[1]])]
            v = ev(node.args[0], env)
            if all(t in NUMBER_TYPES | {'str'} for t in tnames):
                isnum = isinstance(v, (int, float, complex)) and not isinstance(v, bool)
                return (isnum and any(t in NUMBER_TYPES for t in tnames)) or (isinstance(v, str) and 'str' in tnames)
            if all(t in ('list', 'tuple', 'set', 'dict') for t in tnames):
                return isinstance(v, tuple({'list': list, 'tuple': tuple, 'set': set, 'dict': dict}[t] for t in tnames))
        if name in ('zip', 'enumerate', 'range') and name not in env:
            args = [ev(a, env) for a in node.args]
            kw = {k.arg: ev(k.value, env) for k in node.keywords}
            try:
                if name == 'zip' and not kw:
                    return list(zip(*args))
                if name == 'enumerate' and set(kw) <= {'start'}:
                    return list(enumerate(*args, **kw))
                if name == 'range' and not kw:
                    return list(range(*args))
            except TypeError:
                pass
            raise Unsupported(name)
        if isinstance(f, ast.Attribute) and f.attr in ('keys', 'values', 'items') and not node.args and not node.keywords:
            recv = ev(f.value, env)
            if isinstance(recv, dict):
                return list(getattr(recv, f.attr)())
            raise Unsupported('method %s' % f.attr)
        if isinstance(f, ast.Attribute) and f.attr in SET_METHODS and not node.keywords:
            recv = ev(f.value, env)
            if isinstance(recv, dict) and f.attr == 'copy' and not node.args:
                return dict(recv)
            if isinstance(recv, list) and f.attr == 'copy' and not node.args:
                return list(recv)
            if not isinstance(recv, (set, frozenset)):
                raise Unsupported('set method on a non-set')
            args = [ev(a, env) for a in node.args]
            try:
                return getattr(set(recv), f.attr)(*args)
            except TypeError:
                raise Unsupported('set method arguments')
        raise Unsupported('call %s' % ast.unparse(node)[:40])
    if isinstance(node, (ast.ListComp, ast.SetComp, ast.GeneratorExp)):
        out = []

        def gen(i, e):
            if i == len(node.generators):
                out.append(ev(node.elt, e))
                return
            g = node.generators[i]
            for item in ev(g.iter, e):
                e2 = dict(e)
                _bind(g.target, item, e2)
                if all(ev(c, e2) for c in g.ifs):
                    gen(i + 1, e2)
        gen(0, env)
        return set(out) if isinstance(node, ast.SetComp) else out
    if isinstance(node, ast.IfExp):
        return ev(node.body, env) if ev(node.test, env) else ev(node.orelse, env)
    raise Unsupported(type(node).__name__)


def _bind(target, value, env):
    if isinstance(target, ast.Name):
        env[target.id] = value
    elif isinstance(target, (ast.Tuple, ast.List)) and all(isinstance(e, ast.Name) for e in target.elts):
        vals = list(value)
        if len(vals) != len(target.elts):
            raise Unsupported('unpacking')
        for e, v in zip(target.elts, vals):
            env[e.id] = v
    else:
        raise Unsupported('assignment target')


def run(stmts, env):
    """The few straight-line statements that BUILD a set/list of names (x = [...], x += [...], for v in S: if c: x.append(v)),
    evaluated over a symbolic universe.  Anything else is Unsupported."""
    for s in stmts:
        if isinstance(s, ast.Pass) or (isinstance(s, ast.Expr) and isinstance(s.value, ast.Constant)):
            continue
        if isinstance(s, ast.Assign) and len(s.targets) == 1:
            _bind(s.targets[0], ev(s.value, env), env)
        elif isinstance(s, ast.AugAssign) and isinstance(s.target, ast.Name) and isinstance(s.op, (ast.Add, ast.BitOr)):
            cur = ev(s.target, env)
            val = ev(s.value, env)
            if isinstance(cur, list) and isinstance(s.op, ast.Add):
                cur.extend(list(val))
            elif isinstance(cur, set) and isinstance(s.op, ast.BitOr):
                cur |= set(val)
            else:
                raise Unsupported('augmented assignment')
        elif isinstance(s, ast.If):
            run(s.body if ev(s.test, env) else s.orelse, env)
        elif isinstance(s, ast.For) and not s.orelse:
            for item in list(ev(s.iter, env)):
                _bind(s.target, item, env)
                run(s.body, env)
        elif isinstance(s, ast.Expr) and isinstance(s.value, ast.Call) and isinstance(s.value.func, ast.Attribute) \
                and s.value.func.attr in ('append', 'extend', 'add', 'update') and not s.value.keywords and len(s.value.args) == 1:
            recv = ev(s.value.func.value, env)
            arg = ev(s.value.args[0], env)
            if isinstance(recv, list) and s.value.func.attr == 'append':
                recv.append(arg)
            elif isinstance(recv, list) and s.value.func.attr == 'extend':
                recv.extend(list(arg))
            elif isinstance(recv, set) and s.value.func.attr == 'add':
                recv.add(arg)
            elif isinstance(recv, set) and s.value.func.attr == 'update':
                recv.update(arg)
            else:
                raise Unsupported('call %s' % ast.unparse(s.value)[:40])
        else:
            raise Unsupported('statement %s' % type(s).__name__)
