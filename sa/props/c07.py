"""C07 -- SingleListGrader scores a delimited list by the documented credit formula (DESIGN A5)."""
import ast

from ..index import AnalysisError, walk_own, unparse, short, ancestors
from ..cfg import cfg_of
from .. import nf, lib
from ..selftest import Mutant, Benign
from . import _c06_common as cm

ID = 'C07'
LG = 'mitxgraders/listgrader.py'
FILES = [LG]

EXPLANATION = (
    "Normal-form / ordering / role rules over listgrader.py against the reference formula A5 "
    "(answer credit * max(0, (sum of item credits - #surplus) / #expected), missing items 0): (D1) consolidate_grades, "
    "evaluated per sign of n_extra = len(grades) - n_expect: surplus items add -1 each, missing items add 0, the divisor "
    "is n_expect, the result is clamped by max(0, .); (D2) consolidate_single_return, evaluated over partial_credit x "
    "{grade < 1, grade == 1}: anything below 1 becomes 0 only when partial_credit is false, ok is computed from that same "
    "grade, messages are the non-empty item messages in order; (D3) process_grade_list: all_awarded = all item grades > 0 "
    "(all nested all_awarded for nested lists), the answer message is appended only under all_awarded, the grade is "
    "multiplied by the answer's credit and ok is recomputed afterwards on every path, all_awarded is published; "
    "(D4) check_response: split by config['delimiter']; the length check (length_error and len differ -> MissingInput) "
    "precedes the blank-item check (missing_error and strip() == '' -> MissingInput) and both precede grading; ordered -> "
    "positional zip of the *padded* lists through the padded checker, unordered -> find_optimal_order(checker, padded "
    "answers, padded inputs); process_grade_list receives len(answers), the answer's msg and credit; (D5) padded_check "
    "returns the zero result with all_awarded False when either side is an _AutomaticFailure and otherwise check(ans, inp); "
    "get_padded_lists pads both lists to the common maximum without mutating its arguments; (D6) infer_from_expect splits "
    "on the grader's own delimiter and recurses into the nested SingleListGrader's infer_from_expect; post_schema_ans_val "
    "converts exactly the string entries.")
NOT_DECIDED = (
    "permutation invariance and the exhaustive optimum of the unordered matching (they rest on C06's undecided "
    "optimality clause; C05-D2 decides only that the right matrix is handed over and read back), floating-point "
    "rounding of the average, and the subgrader's own item credits.")
ASSUMPTIONS = ["item results carry 'grade_decimal' in [0, 1]; AbstractGrader.grade_decimal_to_ok is the ok<->grade map of C01"]

SLG = 'mitxgraders.listgrader.SingleListGrader'


def check(ctx):
    idx = ctx.index
    d1_formula(ctx, idx)
    d2_single_return(ctx, idx)
    d3_process(ctx, idx)
    d4_check_response(ctx, idx)
    d5_padding(ctx, idx)
    d6_infer(ctx, idx)


# ------------------------------------------------------------------------------- D1
def _sign_eval(guard, x):
    """Truth of a canonical guard that compares local x with 0, for sign s of x; None when the guard does not mention x."""
    if not any(cm.is_name(n, x) for n in ast.walk(guard)):
        return None
    g = guard
    neg = False
    if isinstance(g, ast.UnaryOp) and isinstance(g.op, ast.Not):
        neg, g = True, g.operand
    if not (isinstance(g, ast.Compare) and len(g.ops) == 1):
        return 'unknown'
    l, rr, op = g.left, g.comparators[0], type(g.ops[0])
    import operator as _op
    ops = {ast.Eq: _op.eq, ast.NotEq: _op.ne, ast.Lt: _op.lt, ast.LtE: _op.le, ast.Gt: _op.gt, ast.GtE: _op.ge}
    if op not in ops:
        return 'unknown'

    def zero(e):
        return isinstance(e, ast.Constant) and e.value == 0 and not isinstance(e.value, bool)
    if cm.is_name(l, x) and zero(rr):
        f = lambda s: ops[op](s, 0)
    elif cm.is_name(rr, x) and zero(l):
        f = lambda s: ops[op](0, s)
    else:
        return 'unknown'
    return {s: (not f(s)) if neg else f(s) for s in (-1, 0, 1)}


def _flatten_add(e):
    if isinstance(e, ast.BinOp) and isinstance(e.op, ast.Add):
        return _flatten_add(e.left) + _flatten_add(e.right)
    return [e]


def d1_formula(ctx, idx):
    r = ctx.rule('D1.FORMULA', 'consolidate_grades = max(0, (sum of credits - #surplus) / #expected), missing items count 0', floor=8)
    with r:
        fi = idx.func(cm.LG_MOD + '.consolidate_grades')
        if len(fi.params) != 2:
            raise AnalysisError('consolidate_grades: parameters changed')
        G, N = fi.params
        xs = [s for s in walk_own(fi.node) if isinstance(s, ast.Assign) and len(s.targets) == 1 and isinstance(s.targets[0], ast.Name)
              and isinstance(s.value, ast.BinOp) and isinstance(s.value.op, ast.Sub)
              and any(cm.is_call_to(n, 'len', 1) and cm.is_name(n.args[0], G) for n in ast.walk(s.value))]
        if len(xs) != 1:
            raise AnalysisError('consolidate_grades: the surplus count (len(grades) - n_expect) is not computed once')
        X = xs[0].targets[0].id
        res = nf.classify('len(%s) - %s' % (G, N), xs[0].value)
        r.verdict('consolidate_grades: surplus count', res, lib.loc(fi, xs[0]), ok_detail='len(grades) - n_expect',
                  expected='len(grade_decimals) - n_expect')
        if res != nf.MATCH:
            return
        # default of n_expect
        for s in walk_own(fi.node):
            if isinstance(s, ast.Assign) and any(cm.is_name(t, N) for t in s.targets):
                g = cm.guards_of(s, stop=fi.node)
                good = nf.match('len(%s)' % G, s.value) is not None and any(nf.match('%s is None' % N, x) is not None for x in g)
                r.check(good, 'consolidate_grades: default n_expect', 'len(grades) when not given',
                        'n_expect is replaced by `%s` under `%s`' % (short(s.value), ' and '.join(short(x) for x in g) or 'no condition'),
                        lib.loc(fi, s))
        paths = nf.decision_paths(fi.node.body, keep_locals=(X,))
        covered = set()
        for p in paths:
            if any(nf.match('%s is None' % N, g) is not None for g in p.guards):
                continue       # n_expect defaulted: surplus is 0, covered by the general paths
            where = lib.loc(fi, p.leaf.stmt) if p.leaf.stmt is not None else fi.loc
            if p.leaf.kind != 'ret':
                if p.leaf.kind == 'fall':
                    r.violation('consolidate_grades: result', 'a path returns no grade (None)', where)
                else:
                    r.undecided('consolidate_grades: result', 'a path raises', where)
                continue
            feas = {-1, 0, 1}
            unknown = False
            for g in p.guards:
                ev = _sign_eval(g, X)
                if ev is None:
                    continue
                if ev == 'unknown':
                    unknown = True
                    break
                feas &= {s for s in ev if ev[s]}
            if unknown:
                r.undecided('consolidate_grades: case split', 'guard over %s not evaluable: %s' % (X, [short(g) for g in p.guards]), where)
                continue
            if not feas:
                continue
            bad_eff = [e for e in p.effects if any(cm.is_name(n, G) for n in ast.walk(e)) and
                       not (isinstance(e, ast.Assign) and any(cm.is_name(t, X) for t in e.targets))]
            if bad_eff:
                r.undecided('consolidate_grades: list update', 'grades updated by unrecognised `%s`' % short(bad_eff[0]), where)
                continue
            _formula_leaf(r, fi, p.leaf.expr, G, N, X, feas, where)
            covered |= feas
        if covered != {-1, 0, 1}:
            r.undecided('consolidate_grades: case split', 'cases of n_extra not covered: %s' % sorted({-1, 0, 1} - covered), fi.loc)


def _formula_leaf(r, fi, expr, G, N, X, signs, where):
    tag = {1: 'surplus', 0: 'exact', -1: 'missing'}
    label = 'consolidate_grades [%s]' % '/'.join(tag[s] for s in sorted(signs, reverse=True))
    e = expr
    inner = None
    # clamp
    if isinstance(e, ast.Call) and nf.callee_name(e) in ('max', 'min', 'maximum', 'minimum') and len(e.args) == 2:
        consts = [a for a in e.args if isinstance(a, ast.Constant)]
        others = [a for a in e.args if not isinstance(a, ast.Constant)]
        if len(consts) == 1 and len(others) == 1:
            inner = others[0]
            if nf.callee_name(e) in ('min', 'minimum'):
                r.violation(label + ': clamp', 'the average is combined with %r by min(): every non-negative grade becomes %r and negative '
                            'totals stay negative' % (consts[0].value, consts[0].value), where, expected='max(0, avg)', found=short(e))
            elif consts[0].value == 0 and not isinstance(consts[0].value, bool):
                r.ok(label + ': clamp', 'max(0, avg)', where)
            else:
                r.violation(label + ': clamp', 'the grade is clamped at %r instead of 0' % consts[0].value, where, expected='max(0, avg)', found=short(e))
    if inner is None:
        if isinstance(e, ast.BinOp) and isinstance(e.op, ast.Div):
            inner = e
            if 1 in signs:
                r.violation(label + ': clamp', 'the average is returned without max(0, .): more surplus items than earned credit give a '
                            'negative grade', where, expected='max(0, avg)', found=short(e))
            else:
                r.ok(label + ': clamp', 'no surplus on this path: the average is already >= 0', where)
        else:
            r.undecided(label + ': clamp', 'result `%s`' % short(e), where)
            return
    # average
    if not (isinstance(inner, ast.BinOp) and isinstance(inner.op, ast.Div) and cm.is_call_to(inner.left, 'sum', 1)):
        r.undecided(label + ': average', 'average `%s`' % short(inner), where)
        return
    div = inner.right
    if cm.is_name(div, N):
        r.ok(label + ': divisor', 'number of expected items', where)
    elif cm.is_call_to(div, 'len', 1):
        r.violation(label + ': divisor', 'the total is divided by `%s` (number of graded items incl. surplus/padding), not by the number of '
                    'expected items' % short(div), where, expected=N, found=short(div))
    else:
        r.undecided(label + ': divisor', 'divisor `%s`' % short(div), where)
    terms = _flatten_add(inner.left.args[0])
    base = [t for t in terms if cm.is_name(t, G)]
    pads = [t for t in terms if not cm.is_name(t, G)]
    if len(base) != 1:
        r.undecided(label + ': total', 'summed list `%s`' % short(inner.left.args[0]), where)
        return
    parsed = []
    for t in pads:
        ok = isinstance(t, ast.BinOp) and isinstance(t.op, ast.Mult)
        lst, cnt = (t.left, t.right) if ok and isinstance(t.left, ast.List) else (t.right, t.left) if ok else (None, None)
        if not (ok and isinstance(lst, ast.List) and len(lst.elts) == 1 and isinstance(lst.elts[0], ast.Constant)):
            r.undecided(label + ': padding', 'padding term `%s`' % short(t), where)
            return
        tied = cm.is_name(cnt, X) or (cm.is_call_to(cnt, 'abs', 1) and cm.is_name(cnt.args[0], X)) or \
            (isinstance(cnt, ast.UnaryOp) and isinstance(cnt.op, ast.USub) and cm.is_name(cnt.operand, X))
        parsed.append((lst.elts[0].value, cnt, tied))
    for s in sorted(signs, reverse=True):
        construct = 'consolidate_grades [%s]: item credit' % tag[s]
        if s == 1:
            eff = [(c, cnt, tied) for c, cnt, tied in parsed if c != 0]
            if not eff:
                r.violation(construct, 'surplus items are not penalised (each counts %s): a student who lists every possibility gets full '
                            'credit' % ('0' if parsed else 'nothing'), where, expected='-1 per surplus item', found=short(inner.left.args[0]))
            elif len(eff) == 1 and eff[0][2] and not (isinstance(eff[0][1], ast.UnaryOp)):
                c = eff[0][0]
                if c == -1:
                    r.ok(construct, '-1 per surplus item', where)
                else:
                    r.violation(construct, 'each surplus item counts %r instead of -1' % c, where, expected='[-1] * n_extra',
                                found=short(inner.left.args[0]))
            else:
                r.undecided(construct, 'surplus padding `%s`' % short(inner.left.args[0]), where)
        elif s == -1:
            eff = [c for c, cnt, tied in parsed if c != 0]
            if not eff:
                r.ok(construct, 'missing items add 0', where)
            else:
                r.violation(construct, 'each missing item counts %r instead of 0' % eff[0], where, expected='0 per missing item',
                            found=short(inner.left.args[0]))
        else:
            eff = [c for c, cnt, tied in parsed if c != 0 and not tied]
            if eff:
                r.violation(construct, 'a list of exactly the expected length is padded with %r' % eff[0], where)
            else:
                r.ok(construct, 'no padding when the length is right', where)


# ------------------------------------------------------------------------------- D2
def d2_single_return(ctx, idx):
    r = ctx.rule('D2.SWITCH', 'partial_credit=False turns anything below full item credit into 0; ok follows the grade; '
                 'messages are the non-empty item messages', floor=10)
    with r:
        fi = idx.func(cm.LG_MOD + '.consolidate_single_return')
        if fi.params != ['input_list', 'n_expect', 'partial_credit']:
            raise AnalysisError('consolidate_single_return: parameters changed: %s' % fi.params)
        paths = [p for p in nf.decision_paths(fi.node.body)
                 if not any(nf.match('n_expect is None', g) is not None for g in p.guards)]
        if not paths:
            raise AnalysisError('consolidate_single_return: no path with an explicit n_expect')
        table = {}
        for p in paths:
            where = lib.loc(fi, p.leaf.stmt) if p.leaf.stmt is not None else fi.loc
            if p.leaf.kind != 'ret' or not isinstance(p.leaf.expr, ast.Dict):
                r.undecided('consolidate_single_return: result', 'a path does not return a result dictionary', where)
                continue
            d = {k.value: v for k, v in zip(p.leaf.expr.keys, p.leaf.expr.values) if isinstance(k, ast.Constant)}
            if not {'grade_decimal', 'ok', 'msg'} <= set(d):
                r.violation('consolidate_single_return: result', 'result dictionary lacks %s' % sorted({'grade_decimal', 'ok', 'msg'} - set(d)), where)
                continue
            for pc in (True, False):
                for below in (True, False):
                    feasible = True
                    for g in p.guards:
                        v = _eval_switch(g, pc, below)
                        if v is None:
                            r.undecided('consolidate_single_return: case split', 'guard `%s` not evaluable' % short(g), where)
                            feasible = False
                            break
                        if not v:
                            feasible = False
                            break
                    if feasible:
                        table.setdefault((pc, below), []).append((p, d, where))
        for (pc, below), lst in sorted(table.items(), reverse=True):
            construct = 'consolidate_single_return [partial_credit=%s, items %s]' % (pc, 'below full' if below else 'full')
            for p, d, where in lst:
                X = d['grade_decimal']
                is_call = cm.is_call_to(X, 'consolidate_grades')
                is_zero = isinstance(X, ast.Constant) and X.value == 0 and not isinstance(X.value, bool)
                if (not pc) and below:
                    if is_zero:
                        r.ok(construct, 'grade 0', where)
                    elif is_call:
                        r.violation(construct, 'with partial_credit=False a list short of full item credit keeps its partial grade', where,
                                    expected='0', found=short(X))
                    else:
                        r.undecided(construct, 'grade `%s`' % short(X), where)
                else:
                    if is_call:
                        r.ok(construct, 'grade = consolidate_grades(...)', where)
                    elif is_zero:
                        r.violation(construct, 'the grade is forced to 0 although %s' % (
                            'partial credit is enabled' if pc else 'every item earned full credit (grade == 1)'), where,
                            expected='consolidate_grades(...)', found='0')
                    else:
                        r.undecided(construct, 'grade `%s`' % short(X), where)
                okv = d['ok']
                if not (cm.is_call_to(okv, 'grade_decimal_to_ok', 1) and nf.equal(okv.args[0], X)):
                    if cm.is_call_to(okv, 'grade_decimal_to_ok', 1):
                        r.violation(construct + ': ok', "'ok' is computed from `%s` while the grade is `%s`: the pair is inconsistent"
                                    % (short(okv.args[0]), short(X)), where)
                    else:
                        r.undecided(construct + ': ok', "'ok' = `%s`" % short(okv), where)
        for case in [(True, True), (True, False), (False, True), (False, False)]:
            if case not in table:
                r.undecided('consolidate_single_return: case split', 'no path for partial_credit=%s, below=%s' % case, fi.loc)
        # the consolidated grade and the messages (same on every path: take the first)
        p, d, where = table[sorted(table)[-1]][0] if table else (None, None, None)
        if p is None:
            return
        calls = [n for n in ast.walk(p.leaf.expr) if cm.is_call_to(n, 'consolidate_grades')] or \
            [n for g in p.guards for n in ast.walk(g) if cm.is_call_to(n, 'consolidate_grades')]
        if not calls:
            r.undecided('consolidate_single_return: item credits', 'consolidate_grades call not found', fi.loc)
        else:
            c = calls[0]
            a0 = c.args[0] if c.args else None
            a1 = lib.get_kw(c, 'n_expect', 1)
            res = nf.classify("[_R['grade_decimal'] for _R in input_list]", a0) if a0 is not None else nf.UNRECOGNISED
            r.verdict('consolidate_single_return: item credits', res, where, ok_detail="every item's grade_decimal, in order",
                      expected="[result['grade_decimal'] for result in input_list]")
            if cm.is_name(a1, 'n_expect'):
                r.ok('consolidate_single_return: expected count', 'n_expect passed on', where)
            elif a1 is None or cm.is_call_to(a1, 'len', 1):
                r.violation('consolidate_single_return: expected count', 'consolidate_grades is called %s: surplus and missing items are '
                            'no longer counted against the expected number' % ('without n_expect' if a1 is None else 'with `%s`' % short(a1)),
                            where, expected='n_expect', found=short(c))
            else:
                r.undecided('consolidate_single_return: expected count', '`%s`' % short(a1), where)
        msg = d['msg']
        pat = "'\\n'.join([_M for _M in [_R['msg'] for _R in input_list] if _M != ''])"
        res = nf.classify([pat, pat.replace('[_M for', '(_M for').replace("!= ''])", "!= ''))"),
                           "'\\n'.join([_R['msg'] for _R in input_list if _R['msg'] != ''])"], msg)
        if res == nf.MATCH:
            r.ok('consolidate_single_return: messages', 'non-empty item messages joined in order', where)
        elif isinstance(res, tuple):
            r.violation('consolidate_single_return: messages', res[1], where, expected="'\\n'.join(non-empty item messages)", found=short(msg))
        elif cm.is_call_to(msg, 'join', 1) and isinstance(msg.args[0], (ast.ListComp, ast.GeneratorExp)) and not msg.args[0].generators[0].ifs:
            r.violation('consolidate_single_return: messages', 'empty item messages are no longer filtered out: the joined message contains '
                        'blank lines', where, expected="if message != ''", found=short(msg))
        else:
            r.undecided('consolidate_single_return: messages', '`%s`' % short(msg), where)


def _eval_switch(g, pc, below):
    """Truth of a guard of consolidate_single_return for partial_credit=pc and consolidated grade (<1 if below else ==1)."""
    if isinstance(g, ast.UnaryOp) and isinstance(g.op, ast.Not):
        v = _eval_switch(g.operand, pc, below)
        return None if v is None else (not v)
    if cm.is_name(g, 'partial_credit'):
        return pc
    if isinstance(g, ast.Compare) and len(g.ops) == 1:
        l, rr = g.left, g.comparators[0]
        import operator as _op
        ops = {ast.Eq: _op.eq, ast.NotEq: _op.ne, ast.Lt: _op.lt, ast.LtE: _op.le, ast.Gt: _op.gt, ast.GtE: _op.ge}
        f = ops.get(type(g.ops[0]))
        val = 0.5 if below else 1
        if f is None:
            if isinstance(g.ops[0], (ast.Is, ast.IsNot)) and cm.is_name(l, 'partial_credit') and isinstance(rr, ast.Constant):
                return (pc is rr.value) if isinstance(g.ops[0], ast.Is) else (pc is not rr.value)
            return None
        if cm.is_call_to(l, 'consolidate_grades') and isinstance(rr, ast.Constant) and isinstance(rr.value, (int, float)):
            return f(val, rr.value)
        if cm.is_call_to(rr, 'consolidate_grades') and isinstance(l, ast.Constant) and isinstance(l.value, (int, float)):
            return f(l.value, val)
        if cm.is_name(l, 'partial_credit') and isinstance(rr, ast.Constant):
            return f(pc, rr.value)
    return None
