"""C07 -- SingleListGrader scores a delimited list by the documented credit formula (DESIGN A5)."""
import ast

from ..index import AnalysisError, walk_own, unparse, short, ancestors
from ..cfg import cfg_of
from .. import nf, lib
from ..selftest import Mutant, Benign
from . import _c06_common as cm

ID = 'C07'
LG = 'mitxgraders/listgrader.py'
MK = 'mitxgraders/helpers/munkres.py'
BASE = 'mitxgraders/baseclasses.py'
FILES = [LG, MK, BASE]

EXPLANATION = (
    "Normal-form / ordering / role rules over listgrader.py against the reference formula A5 "
    "(answer credit * max(0, (sum of item credits - #surplus) / #expected), missing items 0): (D1) consolidate_grades, "
    "evaluated per sign of n_extra = len(grades) - n_expect: surplus items add -1 each, missing items add 0, the divisor "
    "is n_expect, the result is clamped by max(0, .); (D2) consolidate_single_return, evaluated over partial_credit x "
    "{grade 0, 0.5, 0.999999, 1}: anything below 1 becomes 0 exactly when partial_credit is false, messages are the "
    "non-empty item messages in order; (D3) process_grade_list: all_awarded = all item grades > 0 "
    "(all nested all_awarded for nested lists), the answer message is appended only under all_awarded, the grade is "
    "multiplied by the answer's credit and ok is recomputed afterwards on every path, all_awarded is published; "
    "(D4) check_response: split by config['delimiter']; the length check (length_error and len differ -> MissingInput) "
    "precedes the blank-item check (missing_error and strip() == '' -> MissingInput) and both precede grading; ordered -> "
    "positional zip of the *padded* lists through the padded checker, unordered -> find_optimal_order(checker, padded "
    "answers, padded inputs); process_grade_list receives len(answers), the answer's msg and credit; (D5) padded_check "
    "returns the zero result with all_awarded False when either side is an _AutomaticFailure and otherwise check(ans, inp); "
    "get_padded_lists pads both lists to the common maximum without mutating its arguments; (D6) infer_from_expect splits "
    "on the grader's own delimiter and, if it recurses, recurses into the *nested* grader's infer_from_expect (the recursion "
    "itself is redundant with the nested grader's post_schema_ans_val and is not demanded); post_schema_ans_val converts "
    "exactly the string entries; (D7) for unordered lists the Munkres solver itself is pinned to the reviewed reference by the "
    "C06 rule families INIT / RESULT / STEPS (per-cell effect tables of every step): necessary structural conditions of an optimal "
    "matching, not a proof of optimality; (D8) find_optimal_order builds one row per submitted item and one column per expected "
    "item, hands the solver a cost that is a strictly decreasing *affine* function of the item credit (int/round/floor/ceil/// "
    "wrappers are recognised as lossy: the matching would be optimised over rounded credits while credits are summed unrounded) "
    "and reads the pairs back as [row][col] in row order (one result per row of the padded matrix); (D9) ItemGrader.check reports the "
    "highest grade over the alternative lists: max(...) selection, or a running best whose replacement test is evaluated over the "
    "nine order classes (score <,=,> x message length <,=,>): a higher score always replaces, a lower one never.")
NOT_DECIDED = (
    "permutation invariance and the exhaustive optimum of the unordered matching (they rest on C06's undecided "
    "optimality clause; C05-D2 decides only that the right matrix is handed over and read back), floating-point "
    "rounding of the average, and the subgrader's own item credits.")
ASSUMPTIONS = ["item results carry 'grade_decimal' in [0, 1]; AbstractGrader.grade_decimal_to_ok is the ok<->grade map of C01"]

SLG = 'mitxgraders.listgrader.SingleListGrader'


def check(ctx):
    idx = ctx.index
    for fn in (d1_formula, d2_single_return, d3_process, d4_check_response, d5_padding, d6_infer, d7_solver, d8_matrix, d9_best):
        cm.guarded(ctx, fn, idx)


# ------------------------------------------------------------------------------- D1
def _sign_eval(guard, x):
    """Truth of a canonical guard comparing local x with a number, per value of x in VALUES; None if x is not mentioned."""
    if not any(cm.is_name(n, x) for n in ast.walk(guard)):
        return None
    g = guard
    neg = False
    if isinstance(g, ast.BoolOp):
        parts = [_sign_eval(v, x) for v in g.values]
        if any(p == 'unknown' for p in parts) or any(p is None for p in parts):
            return 'unknown'
        return {v: (all(p[v] for p in parts) if isinstance(g.op, ast.And) else any(p[v] for p in parts)) for v in VALUES}
    if isinstance(g, ast.UnaryOp) and isinstance(g.op, ast.Not):
        neg, g = True, g.operand
    if not (isinstance(g, ast.Compare) and len(g.ops) == 1):
        return 'unknown'
    l, rr, op = g.left, g.comparators[0], type(g.ops[0])
    import operator as _op
    ops = {ast.Eq: _op.eq, ast.NotEq: _op.ne, ast.Lt: _op.lt, ast.LtE: _op.le, ast.Gt: _op.gt, ast.GtE: _op.ge}
    if op not in ops:
        return 'unknown'

    def num(e):
        return e.value if isinstance(e, ast.Constant) and isinstance(e.value, (int, float)) and not isinstance(e.value, bool) else None
    if cm.is_name(l, x) and num(rr) is not None:
        f = lambda v: ops[op](v, num(rr))
    elif cm.is_name(rr, x) and num(l) is not None:
        f = lambda v: ops[op](num(l), v)
    else:
        return 'unknown'
    return {v: (not f(v)) if neg else f(v) for v in VALUES}


VALUES = (-2, -1, 0, 1, 2)



_UNK = object()


def _num_eval(e, X, v, module):
    """Value of an expression built from the local X (= v), numbers, comparisons, boolean operators, abs, unary minus,
    conditional expressions and a first-match `next((V for P, V in TABLE if P(arg)), default)` over a module-level literal
    table of (lambda, value) rows.  _UNK when something else occurs."""
    def go(x):
        if isinstance(x, ast.Constant):
            return x.value
        if cm.is_name(x, X):
            return v
        if isinstance(x, ast.UnaryOp):
            a = go(x.operand)
            if a is _UNK:
                return _UNK
            return (not a) if isinstance(x.op, ast.Not) else (-a if isinstance(x.op, ast.USub) and isinstance(a, (int, float)) else a if isinstance(x.op, ast.UAdd) else _UNK)
        if isinstance(x, ast.BoolOp):
            vals = [go(y) for y in x.values]
            if any(y is _UNK for y in vals):
                return _UNK
            return all(vals) if isinstance(x.op, ast.And) else any(vals)
        if isinstance(x, ast.IfExp):
            t = go(x.test)
            return _UNK if t is _UNK else go(x.body if t else x.orelse)
        if isinstance(x, ast.Compare) and len(x.ops) == 1:
            a, b = go(x.left), go(x.comparators[0])
            if a is _UNK or b is _UNK:
                return _UNK
            op = type(x.ops[0])
            if op in (ast.Is, ast.IsNot):
                return (a is b) if op is ast.Is else (a is not b)
            import operator as _op
            f = {ast.Eq: _op.eq, ast.NotEq: _op.ne, ast.Lt: _op.lt, ast.LtE: _op.le, ast.Gt: _op.gt, ast.GtE: _op.ge}.get(op)
            try:
                return _UNK if f is None else f(a, b)
            except TypeError:
                return _UNK
        if cm.is_call_to(x, 'abs', 1):
            a = go(x.args[0])
            return abs(a) if isinstance(a, (int, float)) else _UNK
        if cm.is_call_to(x, 'next') and x.args and isinstance(x.args[0], (ast.GeneratorExp, ast.ListComp)) and len(x.args[0].generators) == 1:
            gen = x.args[0]
            g0 = gen.generators[0]
            table = g0.iter
            if isinstance(table, ast.Name):
                vals = module.assigns.get(table.id, [])
                table = vals[0] if len(vals) == 1 else None
            if not (isinstance(table, (ast.Tuple, ast.List)) and isinstance(g0.target, ast.Tuple) and len(g0.target.elts) == 2
                    and all(isinstance(t, ast.Name) for t in g0.target.elts) and len(g0.ifs) == 1):
                return _UNK
            pn, vn = [t.id for t in g0.target.elts]
            cond = g0.ifs[0]
            if not (isinstance(cond, ast.Call) and cm.is_name(cond.func, pn) and len(cond.args) == 1 and cm.is_name(gen.elt, vn)):
                return _UNK
            arg = go(cond.args[0])
            if arg is _UNK:
                return _UNK
            for row in table.elts:
                if not (isinstance(row, (ast.Tuple, ast.List)) and len(row.elts) == 2 and isinstance(row.elts[0], ast.Lambda)
                        and len(row.elts[0].args.args) == 1):
                    return _UNK
                lam = row.elts[0]
                hit = _num_eval(lam.body, lam.args.args[0].arg, arg, module)
                if hit is _UNK:
                    return _UNK
                if hit:
                    return go(row.elts[1])
            return go(x.args[1]) if len(x.args) > 1 else _UNK
        return _UNK
    return go(e)


def _flatten_add(e):
    if isinstance(e, ast.BinOp) and isinstance(e.op, ast.Add):
        return _flatten_add(e.left) + _flatten_add(e.right)
    return [e]


def d1_formula(ctx, idx):
    r = ctx.rule('D1.FORMULA', 'consolidate_grades = max(0, (sum of credits - #surplus) / #expected), missing items count 0', floor=11)
    with r:
        fi = idx.func(cm.LG_MOD + '.consolidate_grades')
        if len(fi.params) != 2:
            raise AnalysisError('consolidate_grades: parameters changed')
        G, N = fi.params
        xs = [s for s in walk_own(fi.node) if isinstance(s, ast.Assign) and len(s.targets) == 1 and isinstance(s.targets[0], ast.Name)
              and isinstance(s.value, ast.BinOp) and isinstance(s.value.op, ast.Sub)
              and any(cm.is_call_to(n, 'len', 1) and cm.is_name(n.args[0], G) for n in ast.walk(cm.inline(fi, s.value)))]
        if len(xs) != 1:
            raise AnalysisError('consolidate_grades: the surplus count (len(grades) - n_expect) is not computed once')
        X = xs[0].targets[0].id
        res = nf.classify('len(%s) - %s' % (G, N), cm.inline(fi, xs[0].value))
        r.verdict('consolidate_grades: surplus count', res, lib.loc(fi, xs[0]), ok_detail='len(grades) - n_expect',
                  expected='len(grade_decimals) - n_expect')
        if res != nf.MATCH:
            return
        # default of n_expect
        for s in walk_own(fi.node):
            if isinstance(s, ast.Assign) and any(cm.is_name(t, N) for t in s.targets):
                g = cm.guards_of(s, stop=fi.node)
                good = nf.match('len(%s)' % G, cm.inline(fi, s.value)) is not None and any(nf.match('%s is None' % N, x) is not None for x in g)
                r.check(good, 'consolidate_grades: default n_expect', 'len(grades) when not given',
                        'n_expect is replaced by `%s` under `%s`' % (short(s.value), ' and '.join(short(x) for x in g) or 'no condition'),
                        lib.loc(fi, s))
        paths = nf.decision_paths(fi.node.body, keep_locals=(X,))
        covered = set()
        for p in paths:
            if any(nf.match('%s is None' % N, g) is not None for g in p.guards):
                continue       # n_expect defaulted: surplus is 0, covered by the general paths
            where = lib.loc(fi, p.leaf.stmt) if p.leaf.stmt is not None else fi.loc
            if p.leaf.kind != 'ret':
                if p.leaf.kind == 'fall':
                    r.violation('consolidate_grades: result', 'a path returns no grade (None)', where)
                else:
                    r.undecided('consolidate_grades: result', 'a path raises', where)
                continue
            feas = set(VALUES)
            unknown = False
            for g in p.guards:
                ev = _sign_eval(g, X)
                if ev is None:
                    continue
                if ev == 'unknown':
                    ev = {}
                    for v_ in VALUES:
                        t_ = _num_eval(g, X, v_, fi.module)
                        if t_ is _UNK:
                            ev = 'unknown'
                            break
                        ev[v_] = bool(t_)
                if ev == 'unknown':
                    unknown = True
                    break
                feas &= {s for s in ev if ev[s]}
            if unknown:
                r.undecided('consolidate_grades: case split', 'guard over %s not evaluable: %s' % (X, [short(g) for g in p.guards]), where)
                continue
            if not feas:
                continue
            bad_eff = [e for e in p.effects if any(cm.is_name(n, G) for n in ast.walk(e)) and
                       not (isinstance(e, ast.Assign) and any(cm.is_name(t, X) for t in e.targets))]
            if bad_eff:
                r.undecided('consolidate_grades: list update', 'grades updated by unrecognised `%s`' % short(bad_eff[0]), where)
                continue
            for sg in sorted({(v > 0) - (v < 0) for v in feas}, reverse=True):
                _formula_leaf(r, fi, p.leaf.expr, G, N, X, {sg}, where, sorted(v for v in feas if (v > 0) - (v < 0) == sg))
            covered |= feas
        if covered != set(VALUES):
            r.undecided('consolidate_grades: case split', 'cases of n_extra not covered: %s' % sorted(set(VALUES) - covered), fi.loc)


def _formula_leaf(r, fi, expr, G, N, X, signs, where, values=()):
    tag = {1: 'surplus', 0: 'exact', -1: 'missing'}
    label = 'consolidate_grades [%s]' % '/'.join(tag[s] for s in sorted(signs, reverse=True))
    e = expr
    inner = None
    # clamp
    if isinstance(e, ast.Call) and nf.callee_name(e) in ('max', 'min', 'maximum', 'minimum') and len(e.args) == 2:
        consts = [a for a in e.args if isinstance(a, ast.Constant)]
        others = [a for a in e.args if not isinstance(a, ast.Constant)]
        if len(consts) == 1 and len(others) == 1:
            inner = others[0]
            if nf.callee_name(e) in ('min', 'minimum'):
                r.violation(label + ': clamp', 'the average is combined with %r by min(): every non-negative grade becomes %r and negative '
                            'totals stay negative' % (consts[0].value, consts[0].value), where, expected='max(0, avg)', found=short(e))
            elif consts[0].value == 0 and not isinstance(consts[0].value, bool):
                r.ok(label + ': clamp', 'max(0, avg)', where)
            else:
                r.violation(label + ': clamp', 'the grade is clamped at %r instead of 0' % consts[0].value, where, expected='max(0, avg)', found=short(e))
    if inner is None:
        if isinstance(e, ast.BinOp) and isinstance(e.op, ast.Div):
            inner = e
            if 1 in signs:
                r.violation(label + ': clamp', 'the average is returned without max(0, .): more surplus items than earned credit give a '
                            'negative grade', where, expected='max(0, avg)', found=short(e))
            else:
                r.ok(label + ': clamp', 'no surplus on this path: the average is already >= 0', where)
        else:
            r.undecided(label + ': clamp', 'result `%s`' % short(e), where)
            return
    # average
    if not (isinstance(inner, ast.BinOp) and isinstance(inner.op, ast.Div) and cm.is_call_to(inner.left, 'sum', 1)):
        r.undecided(label + ': average', 'average `%s`' % short(inner), where)
        return
    div = inner.right
    if cm.is_name(div, N):
        r.ok(label + ': divisor', 'number of expected items', where)
    elif cm.is_call_to(div, 'len', 1):
        r.violation(label + ': divisor', 'the total is divided by `%s` (number of graded items incl. surplus/padding), not by the number of '
                    'expected items' % short(div), where, expected=N, found=short(div))
    else:
        r.undecided(label + ': divisor', 'divisor `%s`' % short(div), where)
    terms = _flatten_add(inner.left.args[0])
    base = [t for t in terms if cm.is_name(t, G)]
    pads = [t for t in terms if not cm.is_name(t, G)]
    if len(base) != 1:
        r.undecided(label + ': total', 'summed list `%s`' % short(inner.left.args[0]), where)
        return
    parsed = []
    for t in pads:
        ok = isinstance(t, ast.BinOp) and isinstance(t.op, ast.Mult)
        lst, cnt = (t.left, t.right) if ok and isinstance(t.left, ast.List) else (t.right, t.left) if ok else (None, None)
        if not (ok and isinstance(lst, ast.List) and len(lst.elts) == 1 and isinstance(lst.elts[0], ast.Constant)):
            if ok and isinstance(lst, ast.List) and len(lst.elts) == 1 and values:
                # [c(n_extra)] * k(n_extra): the contribution to the total, evaluated for the values of n_extra on this path
                s_ = sorted(signs)[0]
                tag_ = tag[s_]
                construct = 'consolidate_grades [%s]: item credit' % tag_
                totals = {}
                for v_ in values:
                    c_, k_ = _num_eval(lst.elts[0], X, v_, fi.module), _num_eval(cnt, X, v_, fi.module)
                    if c_ is _UNK or k_ is _UNK or not isinstance(k_, int) or not isinstance(c_, (int, float)) or isinstance(c_, bool) or k_ < 0:
                        totals = None
                        break
                    totals[v_] = c_ * k_
                if totals is None:
                    r.undecided(label + ': padding', 'padding term `%s` not evaluable' % short(t), where)
                    return
                want_ = {v_: (-v_ if v_ > 0 else 0) for v_ in values}
                bad_ = [v_ for v_ in values if totals[v_] != want_[v_]]
                if not bad_:
                    r.ok(construct, {1: '-1 per surplus item', -1: 'missing items add 0', 0: 'no padding when the length is right'}[s_], where)
                else:
                    v_ = bad_[0]
                    r.violation(construct, 'with %d %s item(s) the padding adds %g to the total instead of %g (%s)' % (
                        abs(v_), 'surplus' if v_ > 0 else 'missing', totals[v_], want_[v_],
                        'each surplus item must count -1' if v_ > 0 else 'missing items count 0'), where, found=short(t))
                return
            r.undecided(label + ': padding', 'padding term `%s`' % short(t), where)
            return
        tied = cm.is_name(cnt, X) or (cm.is_call_to(cnt, 'abs', 1) and cm.is_name(cnt.args[0], X)) or \
            (isinstance(cnt, ast.UnaryOp) and isinstance(cnt.op, ast.USub) and cm.is_name(cnt.operand, X))
        parsed.append((lst.elts[0].value, cnt, tied))
    for s in sorted(signs, reverse=True):
        construct = 'consolidate_grades [%s]: item credit' % tag[s]
        if s == 1:
            eff = [(c, cnt, tied) for c, cnt, tied in parsed if c != 0]
            if not eff:
                r.violation(construct, 'surplus items are not penalised (each counts %s): a student who lists every possibility gets full '
                            'credit' % ('0' if parsed else 'nothing'), where, expected='-1 per surplus item', found=short(inner.left.args[0]))
            elif len(eff) == 1 and eff[0][2] and not (isinstance(eff[0][1], ast.UnaryOp)):
                c = eff[0][0]
                if c == -1:
                    r.ok(construct, '-1 per surplus item', where)
                else:
                    r.violation(construct, 'each surplus item counts %r instead of -1' % c, where, expected='[-1] * n_extra',
                                found=short(inner.left.args[0]))
            else:
                r.undecided(construct, 'surplus padding `%s`' % short(inner.left.args[0]), where)
        elif s == -1:
            eff = [c for c, cnt, tied in parsed if c != 0]
            if not eff:
                r.ok(construct, 'missing items add 0', where)
            else:
                r.violation(construct, 'each missing item counts %r instead of 0' % eff[0], where, expected='0 per missing item',
                            found=short(inner.left.args[0]))
        else:
            eff = [c for c, cnt, tied in parsed if c != 0 and not tied]
            if eff:
                r.violation(construct, 'a list of exactly the expected length is padded with %r' % eff[0], where)
            else:
                r.ok(construct, 'no padding when the length is right', where)


# ------------------------------------------------------------------------------- D2
def d2_single_return(ctx, idx):
    r = ctx.rule('D2.SWITCH', 'partial_credit=False turns anything below full item credit into 0 (and nothing else); '
                 'messages are the non-empty item messages', floor=11)
    with r:
        fi = idx.func(cm.LG_MOD + '.consolidate_single_return')
        if fi.params != ['input_list', 'n_expect', 'partial_credit']:
            raise AnalysisError('consolidate_single_return: parameters changed: %s' % fi.params)
        paths = []
        for p in nf.decision_paths(fi.node.body):
            p.guards = [nf.canon(cm.resolve_objects(idx, fi.module, g)) for g in p.guards]
            if p.leaf.expr is not None:
                p.leaf.expr = nf.canon(cm.resolve_objects(idx, fi.module, p.leaf.expr))
            # parameters copied into temporaries by an inlined helper (n_expect_inl2 = n_expect) are read as the parameter
            if not any(nf.match('n_expect is None', g) is not None for g in p.guards):
                paths.append(p)
        if not paths:
            raise AnalysisError('consolidate_single_return: no path with an explicit n_expect')
        table = {}
        for p in paths:
            where = lib.loc(fi, p.leaf.stmt) if p.leaf.stmt is not None else fi.loc
            if p.leaf.kind != 'ret' or not isinstance(p.leaf.expr, ast.Dict):
                r.undecided('consolidate_single_return: result', 'a path does not return a result dictionary', where)
                continue
            d = {k.value: v for k, v in zip(p.leaf.expr.keys, p.leaf.expr.values) if isinstance(k, ast.Constant)}
            if not {'grade_decimal', 'ok', 'msg'} <= set(d):
                r.violation('consolidate_single_return: result', 'result dictionary lacks %s' % sorted({'grade_decimal', 'ok', 'msg'} - set(d)), where)
                continue
            for pc in (True, False):
                for below in (0.0, 0.5, 0.999999, 1.0):
                    feasible = True
                    for g in p.guards:
                        if nf.match('n_expect is not None', g) is not None:
                            continue
                        v = _eval_switch(g, pc, below)
                        if v is None:
                            r.undecided('consolidate_single_return: case split', 'guard `%s` not evaluable' % short(g), where)
                            feasible = False
                            break
                        if not v:
                            feasible = False
                            break
                    if feasible:
                        table.setdefault((pc, below), []).append((p, d, where))
        for (pc, below), lst in sorted(table.items(), reverse=True):
            construct = 'consolidate_single_return [partial_credit=%s, item credit %s]' % (pc, 'full' if below == 1.0 else below)
            for p, d, where in lst:
                X = d['grade_decimal']
                is_call = cm.is_call_to(X, 'consolidate_grades')
                is_zero = isinstance(X, ast.Constant) and X.value == 0 and not isinstance(X.value, bool)
                if (not pc) and below < 1:
                    if is_zero:
                        r.ok(construct, 'grade 0', where)
                    elif is_call:
                        r.violation(construct, 'with partial_credit=False a list short of full item credit keeps its partial grade', where,
                                    expected='0', found=short(X))
                    else:
                        r.undecided(construct, 'grade `%s`' % short(X), where)
                else:
                    if is_call:
                        r.ok(construct, 'grade = consolidate_grades(...)', where)
                    elif is_zero:
                        r.violation(construct, 'the grade is forced to 0 although %s' % (
                            'partial credit is enabled' if pc else 'every item earned full credit (grade == 1)'), where,
                            expected='consolidate_grades(...)', found='0')
                    else:
                        r.undecided(construct, 'grade `%s`' % short(X), where)
                okv = d['ok']
                if cm.is_call_to(okv, 'grade_decimal_to_ok', 1) and not nf.equal(okv.args[0], X):
                    # not a violation of C07: process_grade_list (the only caller) recomputes 'ok' after scaling (D3)
                    r.note("consolidate_single_return computes 'ok' from `%s` while the grade is `%s` (overwritten by process_grade_list)"
                           % (short(okv.args[0]), short(X)))
        for case in [(a, b) for a in (True, False) for b in (0.0, 0.5, 0.999999, 1.0)]:
            if case not in table:
                r.undecided('consolidate_single_return: case split', 'no path for partial_credit=%s, below=%s' % case, fi.loc)
        # the consolidated grade and the messages (same on every path: take the first)
        p, d, where = table[sorted(table)[-1]][0] if table else (None, None, None)
        if p is None:
            return
        calls = [n for n in ast.walk(p.leaf.expr) if cm.is_call_to(n, 'consolidate_grades')] or \
            [n for g in p.guards for n in ast.walk(g) if cm.is_call_to(n, 'consolidate_grades')]
        if not calls:
            r.undecided('consolidate_single_return: item credits', 'consolidate_grades call not found', fi.loc)
        else:
            c = calls[0]
            a0 = c.args[0] if c.args else None
            a1 = lib.get_kw(c, 'n_expect', 1)
            res = nf.classify("[_R['grade_decimal'] for _R in input_list]", a0) if a0 is not None else nf.UNRECOGNISED
            r.verdict('consolidate_single_return: item credits', res, where, ok_detail="every item's grade_decimal, in order",
                      expected="[result['grade_decimal'] for result in input_list]")
            if cm.is_name(a1, 'n_expect'):
                r.ok('consolidate_single_return: expected count', 'n_expect passed on', where)
            elif a1 is None or cm.is_call_to(a1, 'len', 1):
                r.violation('consolidate_single_return: expected count', 'consolidate_grades is called %s: surplus and missing items are '
                            'no longer counted against the expected number' % ('without n_expect' if a1 is None else 'with `%s`' % short(a1)),
                            where, expected='n_expect', found=short(c))
            else:
                r.undecided('consolidate_single_return: expected count', '`%s`' % short(a1), where)
        msg = d['msg']
        pat = "'\\n'.join([_M for _M in [_R['msg'] for _R in input_list] if _M != ''])"
        res = nf.classify([pat, pat.replace('[_M for', '(_M for').replace("!= ''])", "!= ''))"),
                           "'\\n'.join([_R['msg'] for _R in input_list if _R['msg'] != ''])"], msg)
        if res == nf.MATCH:
            r.ok('consolidate_single_return: messages', 'non-empty item messages joined in order', where)
        elif isinstance(res, tuple):
            r.violation('consolidate_single_return: messages', res[1], where, expected="'\\n'.join(non-empty item messages)", found=short(msg))
        elif cm.is_call_to(msg, 'join', 1) and isinstance(msg.args[0], (ast.ListComp, ast.GeneratorExp)) and not msg.args[0].generators[0].ifs:
            r.violation('consolidate_single_return: messages', 'empty item messages are no longer filtered out: the joined message contains '
                        'blank lines', where, expected="if message != ''", found=short(msg))
        else:
            r.undecided('consolidate_single_return: messages', '`%s`' % short(msg), where)


def _eval_switch(g, pc, below):
    """Truth of a guard of consolidate_single_return for partial_credit=pc and consolidated grade value `below`."""
    if isinstance(g, ast.UnaryOp) and isinstance(g.op, ast.Not):
        v = _eval_switch(g.operand, pc, below)
        return None if v is None else (not v)
    if isinstance(g, ast.BoolOp):
        vs = [_eval_switch(v, pc, below) for v in g.values]
        if None in vs:
            return None
        return all(vs) if isinstance(g.op, ast.And) else any(vs)
    if cm.is_name(g, 'partial_credit'):
        return pc
    if isinstance(g, ast.Compare) and len(g.ops) == 1:
        l, rr = g.left, g.comparators[0]
        import operator as _op
        ops = {ast.Eq: _op.eq, ast.NotEq: _op.ne, ast.Lt: _op.lt, ast.LtE: _op.le, ast.Gt: _op.gt, ast.GtE: _op.ge}
        f = ops.get(type(g.ops[0]))
        val = below
        if f is None:
            if isinstance(g.ops[0], (ast.Is, ast.IsNot)) and cm.is_name(l, 'partial_credit') and isinstance(rr, ast.Constant):
                return (pc is rr.value) if isinstance(g.ops[0], ast.Is) else (pc is not rr.value)
            return None
        if cm.is_call_to(l, 'consolidate_grades') and isinstance(rr, ast.Constant) and isinstance(rr.value, (int, float)):
            return f(val, rr.value)
        if cm.is_call_to(rr, 'consolidate_grades') and isinstance(l, ast.Constant) and isinstance(l.value, (int, float)):
            return f(l.value, val)
        if cm.is_name(l, 'partial_credit') and isinstance(rr, ast.Constant):
            return f(pc, rr.value)
    return None


# ------------------------------------------------------------------------------- D3
def d3_process(ctx, idx):
    r = ctx.rule('D3.PROCESS', 'all_awarded = every item earned credit; answer message only under all_awarded; grade scaled '
                 'by the answer credit and ok recomputed', floor=11)
    with r:
        fi = idx.func(SLG + '.process_grade_list')
        if fi.params[1:] != ['grade_list', 'num_answers', 'msg', 'grade_decimal']:
            raise AnalysisError('process_grade_list: parameters changed: %s' % fi.params)
        selfn = fi.params[0]
        if not lib.calls_named(fi.node, 'consolidate_single_return'):
            cm.RESOLVED_HELPERS.clear()
            cm.ACCUMULATOR_CLASSES.clear()
            R = _inlined_consolidation(r, idx, fi, selfn)
            if R is not None:
                _process_states(r, idx, fi, selfn, R)
            cm.mark_folded_helpers_reviewed(idx)
            return
        csr = lib.one_call(fi, 'consolidate_single_return')
        st = cm.enclosing_stmt(csr)
        if not (isinstance(st, ast.Assign) and len(st.targets) == 1 and isinstance(st.targets[0], ast.Name) and st.value is csr):
            raise AnalysisError('process_grade_list: result of consolidate_single_return is not bound to a local')
        R = st.targets[0].id
        a0 = csr.args[0] if csr.args else None
        ne = lib.get_kw(csr, 'n_expect', 1)
        pcv = lib.get_kw(csr, 'partial_credit', 2)
        r.check(cm.is_name(a0, 'grade_list'), 'process_grade_list: consolidated list', 'grade_list',
                'consolidate_single_return is given `%s`' % short(a0), lib.loc(fi, csr))
        if cm.is_name(ne, 'num_answers'):
            r.ok('process_grade_list: expected count', 'num_answers', lib.loc(fi, csr))
        elif ne is None or cm.is_call_to(ne, 'len', 1):
            r.violation('process_grade_list: expected count', 'the number of expected items is %s: surplus/missing items are measured against '
                        'the submitted list itself' % ('not passed' if ne is None else '`%s`' % short(ne)), lib.loc(fi, csr),
                        expected='n_expect=num_answers', found=short(csr, 100))
        else:
            r.undecided('process_grade_list: expected count', '`%s`' % short(ne), lib.loc(fi, csr))
        if pcv is not None and lib.is_config(pcv, 'partial_credit'):
            r.ok('process_grade_list: partial_credit', "config['partial_credit'] passed on", lib.loc(fi, csr))
        elif pcv is None or isinstance(pcv, ast.Constant):
            r.violation('process_grade_list: partial_credit', "config['partial_credit'] is no longer passed to consolidate_single_return "
                        "(%s): the author's switch has no effect" % ('default True' if pcv is None else short(pcv)), lib.loc(fi, csr))
        else:
            r.undecided('process_grade_list: partial_credit', '`%s`' % short(pcv), lib.loc(fi, csr))
        _process_states(r, idx, fi, selfn, R)




def _inlined_consolidation(r, idx, fi, selfn):
    """process_grade_list with the consolidation written out in place (a helper / accumulator object inlined by the normaliser):
    the record is a dict literal {'grade_decimal', 'ok', 'msg'} bound to a local.  Checks the same three hand-over obligations
    (item credits of grade_list, expected count num_answers, switch on config['partial_credit']) on the resolved expressions."""
    recs = [n for n in walk_own(fi.node) if isinstance(n, ast.Assign) and len(n.targets) == 1 and isinstance(n.targets[0], ast.Name)
            and isinstance(n.value, ast.Dict) and {'grade_decimal', 'ok', 'msg'} <= {k.value for k in n.value.keys if isinstance(k, ast.Constant)}]
    if len(recs) != 1:
        raise AnalysisError('process_grade_list: neither a call of consolidate_single_return nor an in-place result record found')
    R = recs[0].targets[0].id
    where = lib.loc(fi, recs[0])
    # value of the record's grade on every path up to the record
    body = []
    for s_ in fi.node.body:
        body.append(s_)
        if s_ is recs[0]:
            break
    else:
        raise AnalysisError('process_grade_list: the result record is not built at the top level')
    probe = ast.Return(value=recs[0].value)
    ast.copy_location(probe, recs[0])
    paths = nf.decision_paths(body[:-1] + [probe])
    calls, zero_guards, other = [], [], 0
    for p in paths:
        if p.leaf.kind != 'ret' or not isinstance(p.leaf.expr, ast.Dict):
            continue
        if any(isinstance(g, ast.Compare) and len(g.ops) == 1 and isinstance(g.ops[0], ast.Is) and isinstance(g.left, ast.Name)
               and g.left.id in fi.params and nf.const_value(g.comparators[0], 0) is None for g in p.guards):
            continue            # a parameter of process_grade_list "is None": the caller always passes it
        d = {k.value: v for k, v in zip(p.leaf.expr.keys, p.leaf.expr.values) if isinstance(k, ast.Constant)}
        X = cm.resolve_objects(idx, fi.module, d['grade_decimal'])
        guards = [cm.resolve_objects(idx, fi.module, g) for g in p.guards]
        for e in [X] + guards:
            calls += [n for n in ast.walk(e) if cm.is_call_to(n, 'consolidate_grades')]
        if isinstance(X, ast.Constant) and X.value == 0:
            zero_guards.append(guards)
        else:
            other += 1
    if not calls:
        r.undecided('process_grade_list: consolidated list', 'no consolidate_grades(...) found in the in-place consolidation', where)
        return R
    c = calls[0]
    a0 = c.args[0] if c.args else None
    ne = lib.get_kw(c, 'n_expect', 1)
    res = nf.classify("[_R['grade_decimal'] for _R in grade_list]", a0) if a0 is not None else nf.UNRECOGNISED
    if res == nf.MATCH:
        r.ok('process_grade_list: consolidated list', 'grade_decimal of every item of grade_list', where)
    elif isinstance(res, tuple):
        r.violation('process_grade_list: consolidated list', res[1], where)
    else:
        r.undecided('process_grade_list: consolidated list', '`%s`' % short(a0), where)
    if cm.is_name(ne, 'num_answers'):
        r.ok('process_grade_list: expected count', 'num_answers', where)
    elif ne is None or cm.is_call_to(ne, 'len', 1):
        r.violation('process_grade_list: expected count', 'the number of expected items is %s: surplus/missing items are measured against '
                    'the submitted list itself' % ('not passed' if ne is None else '`%s`' % short(ne)), where, expected='num_answers')
    else:
        r.undecided('process_grade_list: expected count', '`%s`' % short(ne), where)
    sw = [g for g in zero_guards if any(isinstance(x, ast.UnaryOp) and isinstance(x.op, ast.Not) and lib.is_config(x.operand, 'partial_credit')
                                       for y in g for x in nf.conjuncts(y))]
    if sw:
        r.ok('process_grade_list: partial_credit', "the all-or-nothing switch tests config['partial_credit']", where)
    elif zero_guards:
        r.undecided('process_grade_list: partial_credit', 'the zeroing path is guarded by %s' % [short(x) for x in zero_guards[0]], where)
    else:
        r.violation('process_grade_list: partial_credit', "no path sets the grade to 0: config['partial_credit'] has no effect", where)
    return R


def _credit_scaled_before_switch(idx, fi, R):
    """When process_grade_list hands the answer's credit to consolidate_single_return and the all-or-nothing comparison there is
    made on the already scaled grade, say so (the text of the violation); None otherwise."""
    csr_calls = lib.calls_named(fi.node, 'consolidate_single_return')
    if len(csr_calls) != 1:
        return None
    call = csr_calls[0]
    csr = idx.func(cm.LG_MOD + '.consolidate_single_return')
    bound = cm.bind_call(csr.params, call)
    if not bound:
        return None
    credit_params = [k for k, v in bound.items() if cm.is_name(v, 'grade_decimal')]
    if not credit_params:
        return None
    cp = credit_params[0]
    for p in nf.decision_paths(csr.node.body):
        for g in p.guards:
            for n in ast.walk(g):
                if isinstance(n, ast.Compare) and any(cm.is_call_to(x, 'consolidate_grades') for x in ast.walk(n)) \
                        and any(cm.is_name(x, cp) for x in ast.walk(n)):
                    return ("the answer's credit is passed into consolidate_single_return (parameter `%s`) and the all-or-nothing test `%s` "
                            "is applied AFTER the credit scaling: with partial_credit=False a list with full item credit for an answer worth "
                            "less than 1 (e.g. 0.5) compares below 1 and is zeroed; the test must look at the item credit, the scaling by the "
                            "answer's credit comes afterwards" % (cp, short(n)))
    return None




def _callify(g):
    """a comparison whose consolidate_grades(...) operand may be wrapped (e.g. multiplied by 1): keep as is"""
    return g


def _count_form(e):
    """(predicate, other side, generator) if e is `sum(1 for I in grade_list if P(I)) == OTHER` (either order); else None."""
    if not (isinstance(e, ast.Compare) and len(e.ops) == 1 and isinstance(e.ops[0], ast.Eq)):
        return None
    for a, b in ((e.left, e.comparators[0]), (e.comparators[0], e.left)):
        if cm.is_call_to(a, 'sum', 1) and isinstance(a.args[0], (ast.GeneratorExp, ast.ListComp)) and len(a.args[0].generators) == 1 \
                and nf.const_value(a.args[0].elt, None) == 1 and cm.is_name(a.args[0].generators[0].iter, 'grade_list') \
                and len(a.args[0].generators[0].ifs) == 1:
            g = a.args[0].generators[0]
            return g.ifs[0], b, g
    return None


def _process_states(r, idx, fi, selfn, R):
    """Final values of result['msg' | 'grade_decimal' | 'ok' | 'all_awarded'] per decision path, compared with the reference
    over every assignment of: nested subgrader?, all items awarded?, answer message non-empty?, item messages empty?"""
    import itertools
    # locals computed from the result record keep their place in time: they are replayed in order below
    timed = {R}
    for n_ in walk_own(fi.node):
        if isinstance(n_, ast.Assign) and len(n_.targets) == 1 and isinstance(n_.targets[0], ast.Name) \
                and any(cm.is_name(x, R) for x in ast.walk(n_.value)):
            timed.add(n_.targets[0].id)
    paths = nf.decision_paths(fi.node.body, keep_locals=tuple(sorted(timed)))
    understood = not cm.calls_unreviewed(idx, fi.node)
    nested_p = nf.pat("isinstance(%s.config['subgrader'], SingleListGrader)" % selfn)

    def atom(g):
        if nf.Matcher().match(nested_p, g) is not None:
            return 'nested', True
        if isinstance(g, ast.Call) and nf.callee_name(g) in ('all', 'any') and len(g.args) == 1 \
                and isinstance(g.args[0], (ast.GeneratorExp, ast.ListComp)) and cm.is_name(g.args[0].generators[0].iter, 'grade_list'):
            return 'a', True
        if _count_form(g) is not None:
            return 'a', True
        for pat_, val in (("msg != ''", True), ("msg == ''", False)):
            if nf.match(pat_, g) is not None:
                return 'm', val
        if cm.is_name(g, 'msg'):
            return 'm', True
        for pat_, val in (("%s['msg'] == ''" % R, True), ("%s['msg'] != ''" % R, False)):
            if nf.match(pat_, g) is not None:
                return 'e', val
        if nf.match("%s['msg']" % R, g) is not None:
            return 'e', False
        return None

    def ev(g, sc):
        if isinstance(g, ast.UnaryOp) and isinstance(g.op, ast.Not):
            v = ev(g.operand, sc)
            return None if v is None else not v
        if lib.is_config(g, 'partial_credit'):
            return sc['pc']
        if isinstance(g, ast.Compare) and len(g.ops) == 1 and isinstance(g.ops[0], ast.NotEq):
            flipped = ast.Compare(left=g.left, ops=[ast.Eq()], comparators=g.comparators)
            if _count_form(flipped) is not None:
                return not sc['a']
        if isinstance(g, ast.Compare) and len(g.ops) == 1 and any(cm.is_call_to(n, 'consolidate_grades') for n in ast.walk(g)):
            v = _eval_switch(_callify(g), True, 0.5 if sc['lt'] else 1.0)      # the in-place all-or-nothing comparison
            return v
        if isinstance(g, ast.Compare) and len(g.ops) == 1 and isinstance(g.ops[0], (ast.Is, ast.IsNot)) \
                and isinstance(g.left, ast.Name) and g.left.id in fi.params and nf.const_value(g.comparators[0], 0) is None:
            return isinstance(g.ops[0], ast.IsNot)          # parameters of process_grade_list are given (not None)
        if isinstance(g, ast.BoolOp):
            vs = [ev(v, sc) for v in g.values]
            if None in vs:
                return None
            return all(vs) if isinstance(g.op, ast.And) else any(vs)
        a_ = atom(g)
        if a_ is None:
            return None
        return sc[a_[0]] == a_[1]

    def terms(e):
        if isinstance(e, ast.BinOp) and isinstance(e.op, ast.Add):
            return terms(e.left) + terms(e.right)
        return [e]

    def is_appended(e):
        t = terms(e)
        return len(t) == 3 and nf.match("%s['msg']" % R, t[0]) is not None and isinstance(t[1], ast.Constant) and t[1].value == '\n' \
            and cm.is_name(t[2], 'msg')

    def resolve(e, sc):
        while isinstance(e, ast.IfExp):
            t = ev(nf.canon(e.test), sc)
            if t is None:
                return e
            e = e.body if t else e.orelse
        return e

    class _Sub(ast.NodeTransformer):
        def __init__(self, state):
            self.state = state

        def visit_Subscript(self, node):
            k = cm.sub_key(node)
            if k is not None and cm.is_name(node.value, R) and k in self.state and isinstance(node.ctx, ast.Load):
                from ..index import clone
                return clone(self.state[k])
            self.generic_visit(node)
            return node

        def visit_Name(self, node):
            if isinstance(node.ctx, ast.Load) and ('local', node.id) in self.state:
                from ..index import clone
                return clone(self.state[('local', node.id)])
            return node

    found = {}        # construct -> list of (kind, text, loc)

    def note(construct, kind, text='', where=''):
        found.setdefault(construct, []).append((kind, text, where))

    C_ITEMS, C_NEST, C_PUB = 'process_grade_list: all_awarded (items)', 'process_grade_list: all_awarded (nested lists)', \
        'process_grade_list: all_awarded published'
    C_MSG, C_KEEP, C_CRED, C_OK, C_RET = 'process_grade_list: answer message', 'process_grade_list: answer message (item messages kept)', \
        'process_grade_list: answer credit', 'process_grade_list: ok after scaling', 'process_grade_list: return'
    scenarios = [dict(zip(('nested', 'a', 'm', 'e', 'pc', 'lt'), c)) for c in itertools.product((True, False), repeat=6)]
    covered = set()
    for p in paths:
        where = lib.loc(fi, p.leaf.stmt) if p.leaf.stmt is not None else fi.loc
        if p.leaf.kind == 'raise':
            continue
        p.guards = [nf.canon(cm.resolve_objects(idx, fi.module, g)) for g in p.guards]
        for e_ in p.effects:
            if isinstance(e_, ast.Assign) and not isinstance(e_.value, ast.Dict):
                e_.value = nf.canon(cm.resolve_objects(idx, fi.module, e_.value))
        opaque = [e for e in p.effects if isinstance(e, (ast.For, ast.While, ast.Try, ast.With))]
        if opaque:
            understood = False
        state = {}
        for e in p.effects:
            from ..index import clone
            if isinstance(e, ast.Assign) and len(e.targets) == 1 and cm.sub_key(e.targets[0]) is not None and cm.is_name(e.targets[0].value, R):
                state[cm.sub_key(e.targets[0])] = nf.canon(_Sub(state).visit(clone(e.value)))
            elif isinstance(e, ast.Assign) and len(e.targets) == 1 and isinstance(e.targets[0], ast.Name) and e.targets[0].id in timed \
                    and e.targets[0].id != R:
                state[('local', e.targets[0].id)] = nf.canon(_Sub(state).visit(clone(e.value)))
        if p.leaf.kind != 'ret' or not cm.is_name(p.leaf.expr, R):
            note(C_RET, 'viol', 'returns `%s`, not the consolidated result' % (short(p.leaf.expr) if p.leaf.expr is not None else 'None'), where)
        else:
            note(C_RET, 'ok', 'the consolidated result', where)
        for sc in scenarios:
            vals = [ev(g, sc) for g in p.guards]
            if None in vals:
                note(C_MSG, 'und', 'guard not evaluable: %s' % [short(g) for g, v in zip(p.guards, vals) if v is None], where)
                continue
            if not all(vals):
                continue
            covered.add(tuple(sorted(sc.items())))
            # all_awarded
            aa = state.get('all_awarded')
            cons = C_NEST if sc['nested'] else C_ITEMS
            if aa is None:
                note(C_PUB, 'viol' if understood else 'und', "result['all_awarded'] is no longer set: an enclosing SingleListGrader reads "
                     "item['all_awarded'] and fails with KeyError", fi.loc)
            else:
                note(C_PUB, 'ok', "result['all_awarded'] set", where)
                aa_r = resolve(aa, sc)
                cf = _count_form(aa_r)
                if cf is not None:
                    pred, other_side, comp_ = cf
                    if cm.is_call_to(other_side, 'len', 1) and cm.is_name(other_side.args[0], 'grade_list'):
                        # count of the items with P  ==  number of graded items   is   all(P(item) for item in grade_list)
                        aa_r = ast.Call(func=ast.Name(id='all', ctx=ast.Load()),
                                        args=[ast.GeneratorExp(elt=pred, generators=[ast.comprehension(
                                            target=comp_.target, iter=comp_.iter, ifs=[], is_async=0)])], keywords=[])
                        ast.fix_missing_locations(aa_r)
                    elif cm.is_name(other_side, 'num_answers'):
                        note(cons, 'viol', 'all_awarded compares the number of items that earned credit with the number of EXPECTED items '
                             '(num_answers) instead of the number of graded items (the padded grade_list): with a surplus item every expected '
                             'item can be matched and credited while the surplus one earns nothing -- the counts are equal, all_awarded is '
                             'true and the answer-level message is shown although a submitted item earned no credit', where)
                        continue
                    else:
                        note(cons, 'und', 'all_awarded = `%s`' % short(aa_r), where)
                        continue
                pats = ["all(_I['all_awarded'] for _I in grade_list)", "all([_I['all_awarded'] for _I in grade_list])"] if sc['nested'] else \
                    ["all(0 < _I['grade_decimal'] for _I in grade_list)", "all([0 < _I['grade_decimal'] for _I in grade_list])"]
                res = nf.classify(pats, aa_r)
                if res == nf.MATCH:
                    note(cons, 'ok', 'all nested all_awarded' if sc['nested'] else 'all item grades > 0', where)
                elif isinstance(res, tuple):
                    note(cons, 'viol', res[1] + ': the answer message is shown although an item earned no credit (or withheld although all did)', where)
                else:
                    other = nf.classify(["all(0 < _I['grade_decimal'] for _I in grade_list)"] if sc['nested'] else
                                        ["all(_I['all_awarded'] for _I in grade_list)"], aa_r)
                    if other == nf.MATCH:
                        note(cons, 'viol', 'the %s rule is applied when the subgrader is %s a SingleListGrader' % (
                            'item-credit' if sc['nested'] else 'nested all_awarded', 'itself' if sc['nested'] else 'not'), where)
                    else:
                        note(cons, 'und', 'all_awarded = `%s`' % short(aa_r), where)
            # message
            msgv = state.get('msg')
            msgv = resolve(msgv, sc) if msgv is not None else None
            unchanged = msgv is None or nf.match("%s['msg']" % R, msgv) is not None
            if sc['a'] and sc['m']:
                if unchanged:
                    note(C_MSG, 'viol' if understood else 'und', "the answer-level message is not added to result['msg'] although every item "
                         "earned credit", where)
                elif sc['e']:
                    if cm.is_name(msgv, 'msg'):
                        note(C_MSG, 'ok', 'appended only when all_awarded', where)
                    elif is_appended(msgv):
                        note(C_MSG, 'ok', 'appended only when all_awarded', where)
                        r.note("the answer message is joined with a newline even when there are no item messages")
                    else:
                        note(C_MSG, 'und', 'message `%s`' % short(msgv), where)
                else:
                    if is_appended(msgv):
                        note(C_KEEP, 'ok', 'appended to the item messages', where)
                    elif cm.is_name(msgv, 'msg'):
                        note(C_KEEP, 'viol', 'the answer message replaces the item messages (result[\'msg\'] = msg although item messages exist)', where)
                    else:
                        res = nf.classify("%s['msg'] + '\\n' + msg" % R, msgv)
                        note(C_KEEP, 'viol' if isinstance(res, tuple) else 'und', res[1] if isinstance(res, tuple) else 'message `%s`' % short(msgv), where)
            elif not unchanged:
                if not sc['a']:
                    note(C_MSG, 'viol', 'the answer message is added although not every item earned credit%s' % (
                        ' (and withheld when all did)' if False else ''), where)
                else:
                    note(C_MSG, 'viol', "an empty answer message is appended (adds a trailing line break)", where)
            # scaling and ok
            gv = state.get('grade_decimal')
            if gv is None:
                moved = _credit_scaled_before_switch(idx, fi, R)
                if moved:
                    note(C_CRED, 'viol', moved, fi.loc)
                else:
                    note(C_CRED, 'viol' if understood else 'und', "result['grade_decimal'] is never multiplied by the answer's own credit", fi.loc)
            else:
                res = nf.classify("%s['grade_decimal'] * grade_decimal" % R, resolve(gv, sc))
                if res == nf.MATCH:
                    note(C_CRED, 'ok', 'grade multiplied by the answer credit', where)
                elif isinstance(res, tuple):
                    note(C_CRED, 'viol', res[1], where)
                else:
                    note(C_CRED, 'und', 'scaled grade `%s`' % short(gv), where)
                okv = state.get('ok')
                if okv is None:
                    note(C_OK, 'viol' if understood else 'und', "after the grade is multiplied by the answer's credit 'ok' is not recomputed from "
                         "it: a partial-credit answer reports ok=True with a grade below 1", fi.loc)
                elif cm.is_call_to(okv, 'grade_decimal_to_ok', 1):
                    if nf.equal(okv.args[0], gv):
                        note(C_OK, 'ok', 'recomputed from the scaled grade', where)
                    elif nf.match("%s['grade_decimal']" % R, okv.args[0]) is not None:
                        note(C_OK, 'viol', "'ok' is computed from the grade *before* it is multiplied by the answer's credit: a partial-credit "
                             "answer reports ok=True with a grade below 1", where)
                    else:
                        note(C_OK, 'und', "'ok' computed from `%s`" % short(okv.args[0]), where)
                else:
                    note(C_OK, 'und', "'ok' = `%s`" % short(okv), where)
    missing = [sc for sc in scenarios if tuple(sorted(sc.items())) not in covered]
    if missing:
        note(C_MSG, 'und', 'no path understood for %d of the %d cases' % (len(missing), len(scenarios)), fi.loc)
    for construct in (C_ITEMS, C_NEST, C_PUB, C_MSG, C_KEEP, C_CRED, C_OK, C_RET):
        items = found.get(construct, [])
        viols = [(t, w) for k, t, w in items if k == 'viol']
        unds = [(t, w) for k, t, w in items if k == 'und']
        if viols:
            seen = set()
            for t, w in viols:
                if t not in seen:
                    seen.add(t)
                    r.violation(construct, t, w)
        elif unds:
            r.undecided(construct, unds[0][0], unds[0][1])
        elif items:
            r.ok(construct, items[0][1], items[0][2])
        else:
            r.undecided(construct, 'no case exercises this obligation', fi.loc)


def _plain_length_test(x, names):
    """x is a comparison that mentions nothing but len(<name>) of the given names and integer constants"""
    if not isinstance(x, ast.Compare):
        return False
    seen = False
    for n in ast.walk(x):
        if isinstance(n, ast.Call):
            if not (cm.is_name(n.func, 'len') and len(n.args) == 1 and isinstance(n.args[0], ast.Name) and n.args[0].id in names):
                return False
            seen = True
        elif isinstance(n, ast.Name) and n.id != 'len' and n.id not in names:
            return False
        elif isinstance(n, (ast.Attribute, ast.Subscript)):
            return False
    return seen


# ------------------------------------------------------------------------------- D4
def d4_check_response(ctx, idx):
    r = ctx.rule('D4.CHECK', 'split by the delimiter; length check, then blank-item check, then grading of the padded lists', floor=16)
    with r:
        fi = idx.func(SLG + '.check_response')
        if fi.params[1:3] != ['answer', 'student_input']:
            raise AnalysisError('check_response: parameters changed')
        selfn = fi.params[0]
        cfg = cfg_of(fi.node)
        env = lib.local_env(fi.node)
        # names by definition
        def named(pred):
            out = [k for k, v in env.items() if pred(v)]
            return out[0] if len(out) == 1 else None
        ANS = named(lambda v: nf.match("answer['expect']", v) is not None)
        STU = named(lambda v: _split_form(v, 'student_input') is not None)
        if ANS is None or STU is None:
            raise AnalysisError('check_response: locals for the expected list / the split submission not found')
        split = env[STU]
        while not (isinstance(split, ast.Call) and isinstance(split.func, ast.Attribute) and split.func.attr == 'split'):
            inner_ = [n for n in ast.walk(split) if n is not split and isinstance(n, ast.Call) and isinstance(n.func, ast.Attribute)
                      and n.func.attr == 'split' and cm.is_name(n.func.value, 'student_input')]
            if not inner_:
                raise AnalysisError('check_response: split call not found')
            split = inner_[0]
        construct = 'check_response: split'
        if len(split.args) == 1 and lib.is_config(split.args[0], 'delimiter'):
            r.ok(construct, "student_input.split(config['delimiter'])", lib.loc(fi, split))
        elif len(split.args) >= 1 and isinstance(split.args[0], ast.Constant):
            r.violation(construct, 'the submission is split on the literal %r, not on the configured delimiter' % split.args[0].value,
                        lib.loc(fi, split), expected="config['delimiter']", found=short(split))
        elif not split.args:
            r.violation(construct, 'the submission is split on whitespace, not on the configured delimiter', lib.loc(fi, split))
        else:
            r.undecided(construct, '`%s`' % short(split), lib.loc(fi, split))
        # the two raises
        raises = lib.raises_of(fi.node)
        length_r, blank_r = [], []
        unclassified = []
        for rs in raises:
            g = [y for x in cm.guards_of(rs, stop=fi.node) for y in nf.conjuncts(x if isinstance(x, ast.Name) or (
                isinstance(x, ast.UnaryOp) and isinstance(x.operand, ast.Name)) else cm.inline(fi, x, keep=(ANS, STU)))]
            keys = {k for x in g for n in ast.walk(x) for k in [nf.config_key(n)] if k}
            if 'length_error' in keys:
                length_r.append((rs, g))
            elif 'missing_error' in keys:
                blank_r.append((rs, g))
            elif g and all(_plain_length_test(x, (ANS, STU)) for x in g) and {ANS, STU} <= {n.id for x in g for n in ast.walk(x) if isinstance(n, ast.Name)}:
                # fully read: a comparison of the two lengths and nothing else
                r.violation('check_response: length error', "the refusal of a wrong number of items no longer depends on config['length_error'] "
                            "(raised under %s): a list of the wrong length must be graded (with penalties) unless the option is set"
                            % [short(x) for x in g], lib.loc(fi, rs))
                length_r.append((rs, None))
            else:
                unclassified.append(rs)
                r.undecided('check_response: raise', 'raise under unrecognised guards %s' % [short(x) for x in g], lib.loc(fi, rs))
        grading = lib.calls_named(fi.node, ('get_padded_lists', 'find_optimal_order', 'padded_check'))
        if not grading:
            raise AnalysisError('check_response: grading calls not found')
        for what, lst, flag in (('length', length_r, 'length_error'), ('blank-item', blank_r, 'missing_error')):
            construct = 'check_response: %s error' % what
            if not lst and (unclassified or cm.calls_unreviewed(idx, fi.node)):
                r.undecided(construct, "no raise guarded by config['%s'] recognised (%d raise(s) under conditions that could not be read; "
                            "un-inlined helpers: %s)" % (flag, len(unclassified), cm.calls_unreviewed(idx, fi.node)), fi.loc)
                continue
            if not lst:
                r.violation(construct, "no raise is guarded by config['%s'] any more: %s is graded instead of refused" % (
                    flag, 'a wrong number of items' if what == 'length' else 'a blank item'), fi.loc)
                continue
            for rs, g in lst:
                if g is None:
                    continue
                cls = nf.exc_class_name(rs.exc)
                if lib.exc_is_subclass(idx, fi.module, cls, 'StudentFacingError'):
                    r.ok(construct + ' class', cls, lib.loc(fi, rs))
                    if cls != 'MissingInput':
                        r.note('%s error raised as %s rather than MissingInput' % (what, cls))
                else:
                    r.violation(construct + ' class', 'the %s error is raised as %s, which is not a student-facing error: the student sees '
                                'a configuration/generic error instead of the explanation' % (what, cls), lib.loc(fi, rs),
                                expected='MissingInput (StudentFacingError)', found=cls)
        if length_r:
            rs, g = length_r[0]
            construct = 'check_response: length condition'
            conj = ast.BoolOp(op=ast.And(), values=list(g)) if len(g) > 1 else g[0]
            res = nf.classify(["%s.config['length_error'] and len(%s) != len(%s)" % (selfn, ANS, STU)], conj)
            if isinstance(res, tuple):
                r.violation(construct, res[1], lib.loc(fi, rs), expected="config['length_error'] and len(answers) != len(student_list)",
                            found=short(conj))
            else:
                r.verdict(construct, res, lib.loc(fi, rs), ok_detail='length_error and the counts differ',
                          expected="config['length_error'] and len(answers) != len(student_list)")
        if blank_r:
            rs, g = blank_r[0]
            construct = 'check_response: blank-item condition'
            pos_flag = any(lib.is_config(x, 'missing_error') for x in g)
            rest = [x for x in g if not lib.is_config(x, 'missing_error')]
            if not pos_flag:
                r.violation(construct, "the blank-item error is raised when config['missing_error'] is false", lib.loc(fi, rs))
            bl = [x for x in rest if isinstance(x, (ast.Name, ast.ListComp))]
            comp = cm.value_of(fi, bl[0]) if bl else None
            if comp is None or not isinstance(comp, ast.ListComp):
                others = [x for x in rest if not (cm.is_call_to(x, 'len') or isinstance(x, ast.Compare))]
                if not rest:
                    r.violation(construct, 'the error is raised for every submission when missing_error is set', lib.loc(fi, rs))
                else:
                    r.undecided(construct, 'guards %s' % [short(x) for x in rest], lib.loc(fi, rs))
            else:
                gen = comp.generators[0]
                src_ok = len(comp.generators) == 1 and any(cm.is_name(n, STU) for n in ast.walk(gen.iter)) and len(gen.ifs) == 1
                if not src_ok:
                    r.undecided(construct, 'blank-item scan `%s`' % short(comp), lib.loc(fi, comp))
                else:
                    test = nf.canon(gen.ifs[0])
                    tv = None
                    for n_ in ast.walk(gen.target):
                        if isinstance(n_, ast.Name) and any(cm.is_name(x, n_.id) for x in ast.walk(test)):
                            tv = n_.id
                    blank_forms = ["%s.strip() == ''", "not %s.strip()", "len(%s.strip()) == 0", "%s.isspace() or %s == ''",
                                   "%s.isspace() or not %s", "not %s or %s.isspace()", "%s == '' or %s.isspace()"]
                    empty_forms = ["not %s", "%s == ''", "len(%s) == 0", "not len(%s)"]

                    def fits(forms):
                        return tv is not None and any(nf.match(f.replace('%s', tv), test) is not None for f in forms)
                    if fits(blank_forms):
                        r.ok(construct, "missing_error and some item is empty or only whitespace", lib.loc(fi, comp))
                    elif fits(empty_forms):
                        r.violation(construct, "items are tested with `%s`, which is true only for a zero-length item: an item made of spaces "
                                    "(e.g. 'a, ,b') is graded instead of raising the missing-entry error" % short(gen.ifs[0]),
                                    lib.loc(fi, comp), expected="item.strip() == ''", found=short(gen.ifs[0]))
                    else:
                        res = nf.classify(["_I.strip() == ''"], gen.ifs[0])
                        if isinstance(res, tuple):
                            r.violation(construct, 'blank items are detected by `%s` (%s)' % (short(gen.ifs[0]), res[1]), lib.loc(fi, comp),
                                        expected="item.strip() == ''", found=short(gen.ifs[0]))
                        else:
                            r.undecided(construct, 'blank test `%s`' % short(gen.ifs[0]), lib.loc(fi, comp))
        # order: length test before blank test before grading
        if length_r and blank_r:
            ln = [n for rs, g in length_r for n in cfg.nodes_of(rs)]
            bn = [n for rs, g in blank_r for n in cfg.nodes_of(rs)]
            l_if = _outer_if(length_r[0][0], fi.node)
            b_if = _outer_if(blank_r[0][0], fi.node)
            ltest, btest = cfg.nodes_of(l_if), cfg.nodes_of(b_if)
            construct = 'check_response: order of the checks'
            if cfg.dominates(ltest, btest):
                r.ok(construct, 'the length check comes first', lib.loc(fi, l_if))
            elif cfg.dominates(btest, ltest):
                r.violation(construct, 'the blank-item check runs before the length check: when both apply the student gets the blank-item '
                            'message instead of the preferred length message', lib.loc(fi, b_if))
            else:
                r.undecided(construct, 'neither check dominates the other', lib.loc(fi, l_if))
            gn = [n for c in grading for n in cfg.nodes_containing(c)]
            r.check(cfg.dominates(ltest, gn) and cfg.dominates(btest, gn), 'check_response: checks before grading', 'both checks dominate grading',
                    'grading starts on a path that has not passed the length / blank-item checks', lib.loc(fi, grading[0]))
        _grading(r, idx, fi, selfn, ANS, STU)


def _outer_if(node, stop):
    out = None
    for a in ancestors(node):
        if isinstance(a, ast.If):
            out = a
        if a is stop:
            break
    if out is None:
        raise AnalysisError('raise is not guarded by an if')
    return out


def _grading(r, idx, fi, selfn, ANS, STU):
    env = lib.local_env(fi.node)
    gpl = lib.one_call(fi, 'get_padded_lists')
    st = cm.enclosing_stmt(gpl)
    construct = 'check_response: padding'
    if not (isinstance(st, ast.Assign) and len(st.targets) == 1 and isinstance(st.targets[0], ast.Tuple) and len(st.targets[0].elts) == 2
            and all(isinstance(e, ast.Name) for e in st.targets[0].elts) and len(gpl.args) == 2):
        r.undecided(construct, '`%s`' % short(st), lib.loc(fi, st))
        return
    roles = {}
    for t, a in zip(st.targets[0].elts, gpl.args):
        roles[t.id] = 'answers' if cm.is_name(a, ANS) else 'inputs' if cm.is_name(a, STU) else None
    if sorted(v or '' for v in roles.values()) != ['answers', 'inputs']:
        r.undecided(construct, 'get_padded_lists(%s)' % ', '.join(short(a) for a in gpl.args), lib.loc(fi, gpl))
        return
    r.ok(construct, 'both lists padded', lib.loc(fi, gpl))
    PA = [k for k, v in roles.items() if v == 'answers'][0]
    PS = [k for k, v in roles.items() if v == 'inputs'][0]
    pc = lib.one_call(fi, 'padded_check')
    pst = cm.enclosing_stmt(pc)
    CK = pst.targets[0].id if isinstance(pst, ast.Assign) and len(pst.targets) == 1 and isinstance(pst.targets[0], ast.Name) else None
    construct = 'check_response: checker'
    if CK is None:
        r.undecided(construct, 'padded_check(...) not bound to a local', lib.loc(fi, pc))
        return
    a = cm.value_of(fi, pc.args[0]) if pc.args else None
    good = a is not None and isinstance(a, ast.Attribute) and a.attr == 'check' and lib.is_config(a.value, 'subgrader')
    r.check(good, construct, "padded_check(config['subgrader'].check)", 'padded_check wraps `%s`' % short(a), lib.loc(fi, pc))

    def role_of(e):
        if cm.is_name(e, PA):
            return 'padded answers'
        if cm.is_name(e, PS):
            return 'padded inputs'
        if cm.is_name(e, ANS):
            return 'unpadded answers'
        if cm.is_name(e, STU):
            return 'unpadded inputs'
        return None
    # the two branches
    foo = lib.calls_named(fi.node, 'find_optimal_order')
    branches = {}
    for c in foo:
        g = cm.guards_of(c, stop=fi.node)
        ordered = None
        for x in g:
            if lib.is_config(x, 'ordered'):
                ordered = True
            elif isinstance(x, ast.UnaryOp) and isinstance(x.op, ast.Not) and lib.is_config(x.operand, 'ordered'):
                ordered = False
        branches.setdefault('unordered', []).append((c, ordered))
    construct = 'check_response: unordered grading'
    if not foo and cm.calls_unreviewed(idx, fi.node):
        r.undecided(construct, 'find_optimal_order not found; un-inlined helpers are called', fi.loc)
    elif not foo:
        r.violation(construct, 'find_optimal_order is no longer called: unordered lists are graded positionally', fi.loc)
    for c, ordered in branches.get('unordered', []):
        where = lib.loc(fi, c)
        if ordered is True:
            r.violation(construct, "the optimal assignment is used when config['ordered'] is true (and the positional zip when it is false)", where)
            continue
        if ordered is None:
            r.undecided(construct, "call not guarded by config['ordered']", where)
            continue
        if len(c.args) != 3:
            r.undecided(construct, '`%s`' % short(c), where)
            continue
        f, x, y = c.args
        fv = cm.value_of(fi, f) if isinstance(f, ast.Name) else f
        raw_check = isinstance(fv, ast.Attribute) and fv.attr == 'check' and lib.is_config(fv.value, 'subgrader')
        if raw_check and (role_of(x), role_of(y)) == ('unpadded answers', 'unpadded inputs'):
            from . import c05
            pr, pck = c05.internal_padding(idx)
            if len(pr) == 2 and sorted(pr.values()) == ['answers', 'student_list'] and pck:
                r.ok(construct, 'find_optimal_order(check, answers, inputs): padding and the padded checker are applied inside '
                     'find_optimal_order (its matrix is checked by D8)', where)
                continue
        if not cm.is_name(f, CK):
            if raw_check or (isinstance(f, ast.Attribute) and f.attr == 'check'):
                r.violation(construct, 'the raw subgrader check is used instead of the padded checker: padding objects reach the subgrader', where)
            else:
                r.undecided(construct, 'checker `%s`' % short(f), where)
            continue
        got = (role_of(x), role_of(y))
        if got == ('padded answers', 'padded inputs'):
            r.ok(construct, 'find_optimal_order(checker, padded answers, padded inputs)', where)
        elif got == ('padded inputs', 'padded answers'):
            r.violation(construct, 'answers and inputs are exchanged in find_optimal_order(...)', where)
        elif None not in got:
            r.violation(construct, 'find_optimal_order receives the %s and the %s: missing or surplus items are not matched against '
                        'automatic failures, so they are neither penalised nor counted for all_awarded' % got, where,
                        expected='(checker, %s, %s)' % (PA, PS), found=short(c))
        else:
            r.undecided(construct, '`%s`' % short(c), where)
    # ordered branch: comprehension calling the checker over zip(padded answers, padded inputs)
    construct = 'check_response: ordered grading'
    zips = [n for n in ast.walk(fi.node) if cm.is_call_to(n, 'zip', 2) and all(role_of(a) for a in n.args)]
    if len(zips) != 1:
        r.undecided(construct, 'positional zip not found (%d candidates)' % len(zips), fi.loc)
        return
    z = zips[0]
    where = lib.loc(fi, z)
    comp = None
    for a_ in ancestors(z):
        if isinstance(a_, (ast.ListComp, ast.GeneratorExp)):
            comp = a_
            break
        if isinstance(a_, ast.stmt):
            break
    g = cm.guards_of(z, stop=fi.node)
    ordered = any(lib.is_config(x, 'ordered') for x in g)
    if not ordered:
        r.violation(construct, "the positional zip is not used under config['ordered'] (guards: %s)" % (' and '.join(short(x) for x in g) or 'none'), where)
        return
    got = tuple(role_of(a) for a in z.args)
    if comp is None or len(comp.generators) != 1 or comp.generators[0].ifs:
        r.undecided(construct, 'zip is not the source of a plain comprehension', where)
        return
    gen = comp.generators[0]
    call = comp.elt
    if not (isinstance(call, ast.Call) and (cm.is_name(call.func, CK) or (isinstance(call.func, ast.Attribute) and call.func.attr == 'check'))):
        r.undecided(construct, 'element `%s`' % short(call), where)
        return
    if not cm.is_name(call.func, CK):
        r.violation(construct, 'the raw subgrader check is used instead of the padded checker: padding objects reach the subgrader', where)
        return
    # argument order: checker(*pair) or checker(a, b)
    order = None
    if len(call.args) == 1 and isinstance(call.args[0], ast.Starred) and isinstance(gen.target, ast.Name) and cm.is_name(call.args[0].value, gen.target.id):
        order = [0, 1]
    elif len(call.args) == 2 and all(isinstance(a, ast.Name) for a in call.args):
        order = [cm.target_pos(gen.target, a.id) for a in call.args]
    if order is None or None in order:
        r.undecided(construct, 'arguments of `%s`' % short(call), where)
        return
    eff = (got[order[0]], got[order[1]])
    if eff == ('padded answers', 'padded inputs'):
        r.ok(construct, 'checker(answer_k, input_k) over the padded lists', where)
    elif eff == ('padded inputs', 'padded answers'):
        r.violation(construct, 'the checker is called as checker(input, answer): answers and inputs are exchanged', where)
    else:
        r.violation(construct, 'the positional zip runs over the %s and the %s: zip stops at the shorter list, so surplus items are not '
                    'penalised and missing items do not clear all_awarded' % eff, where, expected='zip(%s, %s)' % (PA, PS), found=short(z))
    # hand-over to process_grade_list
    pg = lib.one_call(fi, 'process_grade_list')
    construct = 'check_response: process_grade_list arguments'
    pgl = idx.func(SLG + '.process_grade_list')
    bound = cm.bind_call(pgl.params[1:], pg)
    if bound is None or not all(k in bound for k in ('grade_list', 'num_answers', 'msg', 'grade_decimal')):
        r.undecided(construct, '`%s`' % short(pg), lib.loc(fi, pg))
        return
    gl, na, ms, gd = bound['grade_list'], bound['num_answers'], bound['msg'], bound['grade_decimal']
    where = lib.loc(fi, pg)
    if cm.is_call_to(na, 'len', 1) and cm.is_name(na.args[0], ANS):
        r.ok(construct + ' (expected count)', 'len(answers)', where)
    elif cm.is_call_to(na, 'len', 1):
        r.violation(construct + ' (expected count)', 'the number of expected items is taken from `%s`: surplus and missing items are no longer '
                    'measured against the expected list' % short(na), where, expected='len(%s)' % ANS, found=short(na))
    else:
        r.undecided(construct + ' (expected count)', '`%s`' % short(na), where)
    for e, key, what in ((ms, 'msg', 'message'), (gd, 'grade_decimal', 'credit')):
        vals = cm.reaching_defs(fi, e) if isinstance(e, ast.Name) else [e]
        good = len(vals) == 1 and isinstance(vals[0], ast.AST) and nf.match("answer['%s']" % key, vals[0]) is not None
        if good:
            r.ok(construct + ' (%s)' % what, "answer['%s']" % key, where)
        elif len(vals) == 1 and isinstance(vals[0], ast.AST) and cm.sub_key(vals[0]) in ('msg', 'grade_decimal'):
            r.violation(construct + ' (%s)' % what, "the answer's %s is taken from `%s`" % (what, short(vals[0])), where)
        elif len(vals) == 1 and isinstance(vals[0], ast.Constant):
            r.violation(construct + ' (%s)' % what, "the answer's own %s is replaced by the constant %r" % (what, vals[0].value), where)
        else:
            r.undecided(construct + ' (%s)' % what, 'value reaching the call: %s' % [short(v) if isinstance(v, ast.AST) else v for v in vals], where)
    gv = cm.reaching_defs(fi, gl) if isinstance(gl, ast.Name) else []
    r.check(len(gv) >= 1 and all(isinstance(v, ast.AST) for v in gv), construct + ' (grades)', 'the graded list',
            'process_grade_list does not receive the graded list', where)
    for ret in lib.returns_of(fi.node):
        r.check(ret.value is pg, 'check_response: return', 'the processed result', 'returns `%s`' % short(ret.value), lib.loc(fi, ret))



def _literal_record(idx, fi, e):
    """A dict literal for `e` when e is a fresh copy of a module-level constant bound once to a dict literal:
    CONST.copy(), dict(CONST), copy.copy(CONST), copy.deepcopy(CONST), {**CONST}; otherwise e itself."""
    src = None
    if isinstance(e, ast.Call) and isinstance(e.func, ast.Attribute) and e.func.attr == 'copy' and not e.args and isinstance(e.func.value, ast.Name):
        src = e.func.value
    elif isinstance(e, ast.Call) and nf.callee_name(e) in ('dict', 'copy', 'deepcopy') and len(e.args) == 1 and not e.keywords \
            and isinstance(e.args[0], ast.Name):
        src = e.args[0]
    elif isinstance(e, ast.Dict) and len(e.keys) == 1 and e.keys[0] is None and isinstance(e.values[0], ast.Name):
        src = e.values[0]
    if src is None:
        return e
    if src.id in lib.local_env(fi.node) or src.id in fi.all_params:
        return e
    vals = fi.module.assigns.get(src.id, [])
    if len(vals) == 1 and isinstance(vals[0], ast.Dict):
        # the constant must not be written anywhere in the module
        for n in ast.walk(fi.module.tree):
            if isinstance(n, (ast.Subscript, ast.Attribute)) and isinstance(n.ctx, (ast.Store, ast.Del)) and cm.is_name(getattr(n, 'value', None), src.id):
                return e
            if isinstance(n, ast.Call) and isinstance(n.func, ast.Attribute) and cm.is_name(n.func.value, src.id) \
                    and n.func.attr in ('update', 'pop', 'clear', 'setdefault', 'popitem', '__setitem__'):
                return e
        return vals[0]
    return e


# ------------------------------------------------------------------------------- D5
def d5_padding(ctx, idx):
    r = ctx.rule('D5.PAD', 'automatic failures on either side score zero with all_awarded False; both lists are padded to the '
                 'common maximum on copies', floor=10)
    with r:
        outer = idx.func(cm.LG_MOD + '.padded_check')
        inner_q = cm.LG_MOD + '.padded_check.<locals>._check'
        inners = [f for q, f in idx.funcs.items() if q.startswith(cm.LG_MOD + '.padded_check.<locals>.')]
        if len(inners) != 1:
            raise AnalysisError('padded_check: expected one nested checker')
        inner = inners[0]
        for ret in lib.returns_of(outer.node):
            r.check(cm.is_name(ret.value, inner.name), 'padded_check: return', 'the wrapping checker',
                    'padded_check returns `%s`, not the wrapper: automatic failures reach the subgrader' % short(ret.value), lib.loc(outer, ret))
        if len(inner.params) != 2:
            raise AnalysisError('padded_check._check: parameters changed')
        A, I = inner.params
        paths = cm.split_conditional_returns(nf.decision_paths(inner.node.body))
        seen = set()
        for p in paths:
            where = lib.loc(inner, p.leaf.stmt) if p.leaf.stmt is not None else inner.loc
            if p.leaf.kind != 'ret':
                r.violation('padded_check: result', 'a path returns nothing / raises', where)
                continue
            e = _literal_record(idx, inner, p.leaf.expr)
            if isinstance(e, ast.Dict):
                seen.add('zero')
                d = {k.value: nf.const_value(v, '?') for k, v in zip(e.keys, e.values) if isinstance(k, ast.Constant)}
                want = {'ok': False, 'msg': '', 'grade_decimal': 0, 'all_awarded': False}
                for k, w in want.items():
                    construct = "padded_check: automatic failure result['%s']" % k
                    if k not in d:
                        r.violation(construct, "key '%s' missing from the automatic-failure result%s" % (
                            k, ": an enclosing list reads item['all_awarded'] (KeyError)" if k == 'all_awarded' else ''), where)
                    elif d[k] == w and type(d[k]) is type(w):
                        r.ok(construct, repr(w), where)
                    elif d[k] == '?':
                        r.undecided(construct, 'not a literal', where)
                    else:
                        r.violation(construct, "an automatic failure (missing or surplus item) yields %s=%r instead of %r%s" % (
                            k, d[k], w, ': the answer message is shown although an item is missing/surplus' if k == 'all_awarded' else ''),
                            where, expected=repr(w), found=repr(d[k]))
                gs_ = [nf.canon(cm.expand_quantifier(x)) for x in p.guards]
                conj = ast.BoolOp(op=ast.And(), values=gs_) if len(gs_) > 1 else (gs_[0] if gs_ else None)
                construct = 'padded_check: automatic failure condition'
                if conj is None:
                    r.violation(construct, 'every pair is failed automatically', where)
                else:
                    res = nf.classify('isinstance(%s, _AutomaticFailure) or isinstance(%s, _AutomaticFailure)' % (A, I), conj)
                    if isinstance(res, tuple):
                        r.violation(construct, res[1] + ': a padding object on one side reaches the subgrader (error) or is graded', where,
                                    expected='either side is an _AutomaticFailure', found=short(conj))
                    elif res == nf.MATCH:
                        r.ok(construct, 'either side is an _AutomaticFailure', where)
                    else:
                        alt = nf.match('isinstance(_X, _AutomaticFailure)', conj)
                        if alt is not None:
                            r.violation(construct, 'only `%s` is tested for _AutomaticFailure: padding on the other side reaches the subgrader'
                                        % short(alt['_X']), where, expected='either side', found=short(conj))
                        else:
                            r.undecided(construct, '`%s`' % short(conj), where)
            elif isinstance(e, ast.Call) and cm.is_name(e.func, outer.params[0]):
                seen.add('delegate')
                construct = 'padded_check: delegation'
                if len(e.args) == 2 and cm.is_name(e.args[0], A) and cm.is_name(e.args[1], I):
                    r.ok(construct, 'check(ans, inp)', where)
                elif len(e.args) == 2 and cm.is_name(e.args[0], I) and cm.is_name(e.args[1], A):
                    r.violation(construct, 'check is called as check(inp, ans): answer and input exchanged', where)
                else:
                    r.undecided(construct, '`%s`' % short(e), where)
            else:
                r.undecided('padded_check: result', '`%s`' % short(e), where)
        if seen != {'zero', 'delegate'}:
            r.undecided('padded_check: result', 'paths found: %s' % sorted(seen), inner.loc)
        # get_padded_lists
        gp = idx.func(cm.LG_MOD + '.get_padded_lists')
        if len(gp.params) != 2:
            raise AnalysisError('get_padded_lists: parameters changed')
        L1, L2 = gp.params
        muts, fx = cm.param_mutations(gp, idx)
        if muts:
            for node, how, pn in muts:
                r.violation('get_padded_lists: parameter %s' % pn, "the caller's list is extended in place (%s): the grader's configured "
                            "answers grow by an _AutomaticFailure on every short submission" % how, lib.loc(gp, node))
        else:
            r.ok('get_padded_lists: parameters', 'not mutated', gp.loc)
        rets = lib.returns_of(gp.node)
        if len(rets) != 1 or not (isinstance(rets[0].value, ast.Tuple) and len(rets[0].value.elts) == 2):
            raise AnalysisError('get_padded_lists: expected `return a, b`')
        mutated = {pn for node, how, pn in muts}
        for pos, (e, L) in enumerate(zip(rets[0].value.elts, (L1, L2))):
            construct = 'get_padded_lists: padded list %d' % (pos + 1)
            if L in mutated:
                continue
            v = cm.deref(gp, e)
            where = lib.loc(gp, v) if hasattr(v, 'lineno') else gp.loc
            vv = nf.canon(lib.inline_locals(v, gp.node))
            other = L2 if L == L1 else L1
            pats = ['%s + [_AutomaticFailure()] * (max(len(%s), len(%s)) - len(%s))' % (L, L1, L2, L)]
            res = nf.classify(pats, vv)
            if res == nf.MATCH:
                r.ok(construct, 'list + failures up to max(len1, len2)', where)
            elif cm.is_name(vv, L) or (isinstance(vv, ast.Subscript) and isinstance(vv.slice, ast.Slice) and cm.is_name(vv.value, L)) \
                    or (cm.is_call_to(vv, 'list', 1) and cm.is_name(vv.args[0], L)):
                r.violation(construct, 'list %d is returned without padding: when it is the shorter one the positional zip / the matching '
                            'silently drops the unmatched items of the other list (surplus not penalised, missing items do not clear '
                            'all_awarded)' % (pos + 1), where, expected=pats[0], found=short(v))
            elif any(cm.is_name(n, other) for n in ast.walk(vv) if isinstance(n, ast.Name)) and not any(
                    cm.is_name(n, L) for n in [vv.left] if isinstance(vv, ast.BinOp)):
                r.violation(construct, 'position %d of the result is built from the other list (`%s`)' % (pos + 1, short(v)), where)
            elif isinstance(res, tuple):
                r.violation(construct, res[1], where, expected=pats[0], found=short(vv))
            else:
                r.undecided(construct, '`%s`' % short(vv), where)



def _split_form(expr, text):
    """(delimiter expr, per-item transformation with the item named `_E` or None, filter) if expr is `text.split(d)` or a
    comprehension `[f(e) for e in text.split(d)]`; else None."""
    def plain(e):
        return isinstance(e, ast.Call) and isinstance(e.func, ast.Attribute) and e.func.attr == 'split' and cm.is_name(e.func.value, text)
    if plain(expr):
        return (expr.args[0] if expr.args else None, None, None)
    if isinstance(expr, (ast.ListComp, ast.GeneratorExp)) and len(expr.generators) == 1 and plain(expr.generators[0].iter) \
            and isinstance(expr.generators[0].target, ast.Name):
        g = expr.generators[0]
        env = {g.target.id: ast.Name(id='_E', ctx=ast.Load())}
        tr = None if cm.is_name(expr.elt, g.target.id) else nf.canon(nf.subst(expr.elt, env))
        flt = [nf.canon(nf.subst(c, env)) for c in g.ifs] or None
        return (g.iter.args[0] if g.iter.args else None, tr, flt)
    if isinstance(expr, ast.Call) and nf.callee_name(expr) in ('list', 'tuple') and len(expr.args) == 1:
        return _split_form(expr.args[0], text)
    if isinstance(expr, ast.Call) and nf.callee_name(expr) == 'map' and len(expr.args) == 2 and plain(expr.args[1]):
        f = expr.args[0]
        tr = nf.canon(ast.Call(func=f, args=[ast.Name(id='_E', ctx=ast.Load())], keywords=[]))
        m = nf.match('str.strip(_E)', tr)
        if m is not None:
            tr = nf.pat('_E.strip()')
        return (expr.args[1].args[0] if expr.args[1].args else None, tr, None)
    return None


def _split_symmetry(r, idx):
    """The expected string (infer_from_expect) and the submission (check_response) must be cut into items by the same function
    of (text, delimiter): an extra per-item transformation or filter on one side only makes the string form of an answer
    grade differently from the equivalent list form."""
    construct = 'SingleListGrader: expected string and submission are split alike'
    inf = idx.func(SLG + '.infer_from_expect')
    chk = idx.func(SLG + '.check_response')
    forms = {}
    for fi, text in ((inf, 'expect'), (chk, 'student_input')):
        cands = []
        for n in walk_own(fi.node):
            if isinstance(n, ast.Assign):
                f = _split_form(n.value, text)
                if f is not None:
                    cands.append((n, f))
        if len(cands) != 1:
            raise AnalysisError('%s: expected one split of `%s`, found %d' % (fi.qualname, text, len(cands)))
        forms[text] = (fi, cands[0][0], cands[0][1])
    (fa, na, (da, ta, fla)), (fb, nb, (db, tb, flb)) = forms['expect'], forms['student_input']

    def same(x, y):
        if x is None or y is None:
            return x is None and y is None
        if isinstance(x, list) or isinstance(y, list):
            return isinstance(x, list) and isinstance(y, list) and len(x) == len(y) and all(nf.equal(p, q) for p, q in zip(x, y))
        return nf.equal(x, y)
    dl_ok = da is not None and db is not None and lib.is_config(da, 'delimiter') and lib.is_config(db, 'delimiter')
    if not dl_ok and not same(nf.canon(da) if da is not None else None, nf.canon(db) if db is not None else None):
        return      # delimiter differences are reported by the split obligations of D4 / D6
    if same(ta, tb) and same(fla, flb):
        r.ok(construct, 'both are text.split(delimiter)%s' % ('' if ta is None else ' with the same per-item transformation `%s`' % short(ta)),
             lib.loc(fa, na))
        return
    side, node, fi_, t_, other = ('expected string', na, fa, ta, 'submission') if (ta is not None or fla) and tb is None and not flb else \
        ('submission', nb, fb, tb, 'expected string') if (tb is not None or flb) and ta is None and not fla else (None, na, fa, None, None)
    if side is None:
        r.violation(construct, 'the expected string is cut with `%s` but the submission with `%s`: the two sides no longer produce the '
                    'same items from the same text' % (short(na.value), short(nb.value)), lib.loc(fa, na))
    else:
        r.violation(construct, 'only the %s is post-processed after splitting (`%s`), the %s is not: an answer written as a string no '
                    'longer grades like the same answer written as a list (e.g. the blanks after a delimiter stay in the %s item but '
                    'are removed from the other side), which shows with any subgrader that is sensitive to them'
                    % (side, short(node.value), other, 'submitted' if side == 'expected string' else 'expected'), lib.loc(fi_, node),
                    expected='the same split on both sides', found=short(node.value))



def _infer_cases(r, idx, fi, selfn):
    """What infer_from_expect returns when the subgrader is / is not a SingleListGrader, over its decision paths.

    not nested: the split list.   nested: each item replaced by config['subgrader'].infer_from_expect(item), in order
    (in place over enumerate, or as a comprehension), or -- accepted with a note -- the split list itself, because the nested
    grader's post_schema_ans_val converts nested strings anyway."""
    C_RET, C_NEST = 'SingleListGrader.infer_from_expect: return', 'SingleListGrader.infer_from_expect: nested lists'
    outs = [n.targets[0].id for n in walk_own(fi.node) if isinstance(n, ast.Assign) and len(n.targets) == 1
            and isinstance(n.targets[0], ast.Name) and _split_form(n.value, 'expect') is not None]
    OUT = outs[0] if len(outs) == 1 else None
    paths = nf.decision_paths(fi.node.body, keep_locals=(OUT,) if OUT else ())
    nested_p = nf.pat("isinstance(%s.config['subgrader'], SingleListGrader)" % selfn)

    def is_split(e):
        return (OUT is not None and cm.is_name(e, OUT)) or _split_form(e, 'expect') is not None

    def recursion(call):
        """'sub' | 'self' | None for X.infer_from_expect(item)"""
        if not (isinstance(call, ast.Call) and nf.callee_name(call) == 'infer_from_expect' and isinstance(call.func, ast.Attribute)
                and len(call.args) == 1):
            return None
        if lib.is_config(call.func.value, 'subgrader'):
            return 'sub'
        if cm.is_name(call.func.value, selfn):
            return 'self'
        return None
    res = {'ret': [], 'nest': []}
    for p in paths:
        where = lib.loc(fi, p.leaf.stmt) if p.leaf.stmt is not None else fi.loc
        if p.leaf.kind == 'raise':
            continue
        if p.leaf.kind != 'ret':
            res['ret'].append(('viol', 'a path returns nothing (None)', where))
            continue
        nested = None
        unknown = False
        for g in p.guards:
            neg = isinstance(g, ast.UnaryOp) and isinstance(g.op, ast.Not)
            core = g.operand if neg else g
            if nf.Matcher().match(nested_p, core) is not None:
                nested = not neg
            else:
                unknown = True
        e = p.leaf.expr
        loops = [x for x in p.effects if isinstance(x, ast.For)]
        # classify what is returned
        kind, rec = None, None
        if isinstance(e, (ast.ListComp, ast.GeneratorExp)) or (cm.is_call_to(e, 'list', 1) and isinstance(e.args[0], (ast.ListComp, ast.GeneratorExp))):
            comp = e if isinstance(e, (ast.ListComp, ast.GeneratorExp)) else e.args[0]
            g0 = comp.generators[0]
            if len(comp.generators) == 1 and not g0.ifs and isinstance(g0.target, ast.Name) and is_split(g0.iter) \
                    and isinstance(comp.elt, ast.Call) and len(comp.elt.args) == 1 and cm.is_name(comp.elt.args[0], g0.target.id):
                rec = recursion(comp.elt)
                kind = 'mapped' if rec else None
        elif is_split(e):
            kind = 'split'
            for lp in loops:
                stores = [x for x in ast.walk(lp) if isinstance(x, ast.Assign) and len(x.targets) == 1 and isinstance(x.targets[0], ast.Subscript)
                          and OUT is not None and cm.is_name(x.targets[0].value, OUT)]
                if stores:
                    st = stores[0]
                    okshape = cm.is_call_to(lp.iter, 'enumerate', 1) and cm.is_name(lp.iter.args[0], OUT) and isinstance(lp.target, ast.Tuple) \
                        and len(lp.target.elts) == 2 and all(isinstance(t, ast.Name) for t in lp.target.elts) \
                        and cm.is_name(st.targets[0].slice, lp.target.elts[0].id) and isinstance(st.value, ast.Call) \
                        and len(st.value.args) == 1 and cm.is_name(st.value.args[0], lp.target.elts[1].id) and not lib.loop_has_early_exit(lp)
                    rec = recursion(st.value) if okshape else None
                    kind = 'mapped' if rec else None
        if kind is None:
            res['ret' if nested is not True else 'nest'].append(('und', 'returns `%s`%s' % (short(e), ' after a loop' if loops else ''), where))
            continue
        if rec == 'self':
            res['nest'].append(('viol', 'the recursion calls self.infer_from_expect: nested items are split again on the *outer* delimiter '
                                'instead of the nested grader\'s', where))
            continue
        if unknown:
            res['ret'].append(('und', 'path under unrecognised guards %s' % [short(g) for g in p.guards], where))
            continue
        if nested is True:
            if kind == 'mapped':
                res['nest'].append(('ok', "each item replaced by config['subgrader'].infer_from_expect(item)", where))
            else:
                res['nest'].append(('plain', '', where))
        elif nested is False:
            if kind == 'split':
                res['ret'].append(('ok', 'the split list', where))
            else:
                res['ret'].append(('viol', "the subgrader's infer_from_expect is applied to the items although the subgrader is not a "
                                   "SingleListGrader", where))
        else:
            # no case split at all
            if kind == 'mapped':
                res['nest'].append(('viol', 'the recursion is not restricted to nested SingleListGraders: any subgrader\'s infer_from_expect '
                                    'is applied to the items', where))
            else:
                res['ret'].append(('ok', 'the split list', where))
                res['nest'].append(('plain', '', where))
    if any(k == 'plain' for k, t, w in res['nest']) and not any(k in ('viol', 'und') for k, t, w in res['nest']):
        ps_ = idx.func(SLG + '.post_schema_ans_val')
        hop = [c for c in lib.calls_named(ps_.node, 'post_schema_ans_val') if isinstance(c.func, ast.Attribute)
               and lib.is_config(c.func.value, 'subgrader')]
        if hop or cm.calls_unreviewed(idx, ps_.node):
            res['nest'] = [x for x in res['nest'] if x[0] != 'plain'] + [
                ('ok', "no recursion here; nested strings are converted by config['subgrader'].post_schema_ans_val", fi.loc)]
            r.note('infer_from_expect does not recurse into nested SingleListGraders (redundant with post_schema_ans_val)')
        else:
            res['nest'] = [('viol', 'nested string answers are converted neither by infer_from_expect nor by the nested grader\'s '
                            'post_schema_ans_val: a nested answer stays a string', fi.loc)]
    for construct, items in ((C_RET, res['ret']), (C_NEST, res['nest'])):
        viols = [(t, w) for k, t, w in items if k == 'viol']
        unds = [(t, w) for k, t, w in items if k == 'und']
        oks = [(t, w) for k, t, w in items if k == 'ok']
        if viols:
            for t, w in viols:
                r.violation(construct, t, w)
        elif unds:
            r.undecided(construct, unds[0][0], unds[0][1])
        elif oks:
            r.ok(construct, oks[0][0], oks[0][1])
        else:
            r.undecided(construct, 'no returning path classified', fi.loc)


# ------------------------------------------------------------------------------- D6
def d6_infer(ctx, idx):
    r = ctx.rule('D6.INFER', "string answers are split on the grader's own delimiter, nested lists by the nested grader; the same split as for the submission", floor=6)
    with r:
        fi = idx.func(SLG + '.infer_from_expect')
        selfn = fi.params[0]
        if fi.params[1:] != ['expect']:
            raise AnalysisError('infer_from_expect: parameters changed')
        _split_symmetry(r, idx)
        splits = [c for c in lib.calls_named(fi.node, 'split') if isinstance(c.func, ast.Attribute) and cm.is_name(c.func.value, 'expect')]
        if len(splits) != 1:
            raise AnalysisError('infer_from_expect: expect.split(...) not found')
        sp = splits[0]
        construct = 'SingleListGrader.infer_from_expect: split'
        if len(sp.args) == 1 and cm.is_self_attr(getattr(sp.args[0], 'value', None), selfn, 'config') and lib.is_config(sp.args[0], 'delimiter'):
            r.ok(construct, "expect.split(self.config['delimiter'])", lib.loc(fi, sp))
        elif sp.args and isinstance(sp.args[0], ast.Constant):
            r.violation(construct, 'the expected string is split on the literal %r, not on this grader\'s delimiter' % sp.args[0].value,
                        lib.loc(fi, sp), expected="self.config['delimiter']", found=short(sp))
        elif sp.args and lib.is_config(sp.args[0], 'delimiter'):
            r.violation(construct, 'the expected string is split on `%s`, another grader\'s delimiter' % short(sp.args[0]), lib.loc(fi, sp),
                        expected="self.config['delimiter']", found=short(sp))
        else:
            r.undecided(construct, '`%s`' % short(sp), lib.loc(fi, sp))
        _infer_cases(r, idx, fi, selfn)
        # post_schema_ans_val converts exactly the strings
        ps = idx.func(SLG + '.post_schema_ans_val')
        calls = lib.calls_named(ps.node, 'infer_from_expect', own=False)
        construct = 'SingleListGrader.post_schema_ans_val: string answers'
        if not calls and cm.calls_unreviewed(idx, ps.node):
            r.undecided(construct, 'infer_from_expect not called here; un-inlined helpers are called', ps.loc)
        elif not calls:
            r.violation(construct, 'string-form answers are no longer converted to lists', ps.loc)
        for c in calls:
            where = lib.loc(ps, c)
            ife = [a for a in ancestors(c) if isinstance(a, ast.IfExp)]
            if ife:
                e = ife[0]
                inbody = any(n is c for n in ast.walk(e.body))
                test = nf.canon(e.test) if inbody else nf.negate(nf.canon(e.test))
                arg = c.args[0] if c.args else None
                m = nf.match('isinstance(_X, str)', test)
                if m is not None and arg is not None and nf.equal(m['_X'], nf.canon(arg)):
                    other = e.orelse if inbody else e.body
                    r.check(nf.equal(nf.canon(other), nf.canon(arg)), construct, 'strings split, lists kept',
                            'non-string answers are replaced by `%s`' % short(other), where)
                else:
                    res = nf.classify('isinstance(%s, str)' % (short(arg) if isinstance(arg, ast.Name) else '_X'), test)
                    if isinstance(res, tuple):
                        r.violation(construct, 'answers are converted when `%s` (%s): lists are split as if they were strings and strings '
                                    'are left alone' % (short(test), res[1]), where, expected='isinstance(x, str)', found=short(test))
                    else:
                        r.undecided(construct, 'condition `%s`' % short(test), where)
            else:
                g = cm.guards_of(c, stop=ps.node)
                if any(nf.match('isinstance(_X, str)', x) is not None for x in g):
                    r.ok(construct, 'strings split', where)
                else:
                    r.violation(construct, 'every answer is passed to infer_from_expect, also lists (no isinstance(x, str) test)', where)
            recv = c.func.value if isinstance(c.func, ast.Attribute) else None
            r.check(cm.is_name(recv, ps.params[0]), construct + ' (receiver)', 'self.infer_from_expect',
                    'conversion uses `%s`' % short(c.func), where)


# ------------------------------------------------------------------------------- D7
def d7_solver(ctx, idx):
    """The statement of this property demands an *optimal* one-to-one assignment; the solver is pinned to the reviewed
    reference (C06.D2 INIT, C06.D3 RESULT, C06.D4 STEPS) here as well, so a change of the solver is reported under this id."""
    from . import c06
    r = ctx.rule('D7.SOLVER', 'the assignment solver equals the reviewed Munkres reference (state re-initialised per solve, '
                 'result extraction, step table, per-cell step effects) -- a pin to the reference, not a proof of optimality', floor=78)
    with r:
        c06.solver_rules(r, idx)


# ------------------------------------------------------------------------------- D8
def d8_matrix(ctx, idx):
    """Unordered lists are graded through find_optimal_order: the matrix it builds, the cost it hands to the solver and the way it
    reads the pairs back are obligations of this property too (same rule body as C05.D2.MATRIX)."""
    from . import c05
    r = ctx.rule('D8.MATRIX', 'find_optimal_order: rows = submitted items, columns = expected items, cost strictly decreasing and affine in '
                 'the item credit (no rounding), results read back as [row][col] in row order', floor=11)
    with r:
        c05.matrix_body(r, idx, lists_may_differ=True)


# ------------------------------------------------------------------------------- D9
def _order_eval(e, R, I, sr, lr):
    """Value of a comparison-built expression over two results R (candidate) and I (incumbent) whose scores compare as sr and whose
    message lengths compare as lr (-1, 0, +1): the complete domain of the two order relations.  None = not evaluable."""
    def val(x):
        if isinstance(x, ast.Constant) and isinstance(x.value, (int, float, bool)):
            return x.value
        if cm.sub_key(x) == 'grade_decimal' and isinstance(x.value, ast.Name):
            return sr if x.value.id == R else 0 if x.value.id == I else None
        if cm.is_call_to(x, 'len', 1) and cm.sub_key(x.args[0]) == 'msg' and isinstance(x.args[0].value, ast.Name):
            return lr if x.args[0].value.id == R else 0 if x.args[0].value.id == I else None
        if isinstance(x, ast.Tuple):
            vs = [val(y) for y in x.elts]
            return None if any(v is None for v in vs) else tuple(vs)
        if isinstance(x, ast.UnaryOp) and isinstance(x.op, ast.Not):
            v = val(x.operand)
            return None if v is None else (not v)
        if isinstance(x, ast.BoolOp):
            vs = [val(y) for y in x.values]
            if any(v is None for v in vs):
                return None
            return all(vs) if isinstance(x.op, ast.And) else any(vs)
        if isinstance(x, ast.Compare):
            import operator as _op
            ops = {ast.Eq: _op.eq, ast.NotEq: _op.ne, ast.Lt: _op.lt, ast.LtE: _op.le, ast.Gt: _op.gt, ast.GtE: _op.ge}
            left = val(x.left)
            res = True
            for o, c in zip(x.ops, x.comparators):
                right = val(c)
                if left is None or right is None or type(o) not in ops or isinstance(left, bool) != isinstance(right, bool) and False:
                    return None
                try:
                    res = res and ops[type(o)](left, right)
                except TypeError:
                    return None
                left = right
            return res
        return None
    return val(e)


def d9_best(ctx, idx):
    r = ctx.rule('D9.BEST', 'over the alternative answer lists the reported grade is the highest one', floor=1)
    with r:
        fi = idx.func('mitxgraders.baseclasses.ItemGrader.check')
        construct = 'ItemGrader.check: best alternative'
        loops = [x for x in walk_own(fi.node) if isinstance(x, ast.For)]
        # (A) all results collected, best chosen by max over grade_decimal (the list may come from a helper / a temporary)
        def about_grades(c):
            for a in c.args:
                v = cm.value_of(fi, a) if isinstance(a, ast.Name) else a
                if any(cm.sub_key(n) == 'grade_decimal' for n in ast.walk(v)):
                    return True
            return False
        maxes = [c for c in walk_own(fi.node) if isinstance(c, ast.Call) and nf.callee_name(c) in ('max', 'min') and not c.keywords
                 and about_grades(c)]
        if maxes:
            if all(nf.callee_name(c) == 'max' for c in maxes):
                r.ok(construct, 'the highest grade_decimal of all graded alternatives is selected (details: C08)', lib.loc(fi, maxes[0]))
            else:
                r.violation(construct, 'the *lowest* grade of the alternatives is selected (`%s`)' % short(maxes[0]), lib.loc(fi, maxes[0]))
            return
        # (B) running best: `if best is None or BETTER(result, best): best = result`
        if not loops:
            raise AnalysisError('ItemGrader.check: neither a max(...) selection over the grades nor a loop with a running best was found')
        cands = []
        for n in walk_own(fi.node):
            if isinstance(n, ast.If) and any(x is n for lp in loops for x in ast.walk(lp)):
                asg = [a for a in n.body if isinstance(a, ast.Assign) and len(a.targets) == 1 and isinstance(a.targets[0], ast.Name)
                       and isinstance(a.value, ast.Name)]
                if len(asg) == 1:
                    cands.append((n, asg[0].targets[0].id, asg[0].value.id))
        if len(cands) != 1:
            raise AnalysisError('ItemGrader.check: neither a max(...) selection nor a running-best update was recognised')
        node, BEST, RES = cands[0]
        test = nf.canon(node.test)
        parts = nf.disjuncts(test)
        first = [p_ for p_ in parts if nf.match('%s is None' % BEST, p_) is not None]
        rest = [p_ for p_ in parts if p_ not in first]
        if not first or len(rest) != 1:
            r.undecided(construct, 'update condition `%s`' % short(test), lib.loc(fi, node))
            return
        pred = rest[0]
        helper = None
        if isinstance(pred, ast.Call) and len(pred.args) == 2 and not pred.keywords:
            targets, how = idx.resolve_call(fi, pred)
            targets = [t for t in targets if not isinstance(t, tuple)]
            if len(targets) == 1:
                helper = targets[0]
        table = {}
        for sr in (-1, 0, 1):
            for lr in (-1, 0, 1):
                if helper is not None:
                    hp = helper.params if helper.is_static or helper.cls is None else helper.params[1:]
                    if len(hp) != 2:
                        raise AnalysisError('helper %s does not take (result, incumbent)' % helper.qualname)
                    roles = {}
                    for pn, a in zip(hp, pred.args):
                        roles[pn] = 'R' if cm.is_name(a, RES) else 'I' if cm.is_name(a, BEST) else None
                    if sorted(v or '' for v in roles.values()) != ['I', 'R']:
                        raise AnalysisError('arguments of `%s` are not (result, incumbent)' % short(pred))
                    Rn = [k for k, v in roles.items() if v == 'R'][0]
                    In = [k for k, v in roles.items() if v == 'I'][0]
                    out = None
                    for p_ in cm.split_conditional_returns(nf.decision_paths(cm.guard_clause_nesting(helper.node.body))):
                        gv = [_order_eval(g, Rn, In, sr, lr) for g in p_.guards]
                        if None in gv:
                            out = 'unknown'
                            break
                        if all(gv):
                            if p_.leaf.kind != 'ret':
                                out = 'unknown'
                            else:
                                v = _order_eval(p_.leaf.expr, Rn, In, sr, lr)
                                out = 'unknown' if v is None else bool(v)
                            break
                    table[(sr, lr)] = out
                else:
                    v = _order_eval(pred, RES, BEST, sr, lr)
                    table[(sr, lr)] = 'unknown' if v is None else bool(v)
        where = lib.loc(fi, node)
        if any(v in ('unknown', None) for v in table.values()):
            r.undecided(construct, 'the replacement test `%s` could not be evaluated over the 9 order classes' % short(pred), where)
            return
        if helper is not None and helper.qualname in (getattr(idx, 'unreviewed', []) or []):
            # the finding is about the new helper itself, every decision path of which was evaluated: name it in the construct
            # (the engine treats findings about an un-inlined helper as definite only then)
            q = helper.qualname
            construct = '%s: replacement test used by ItemGrader.check' % (q[len('mitxgraders.'):] if q.startswith('mitxgraders.') else q)
        src = ('%s (%s)' % (short(pred), helper.qualname.split('.')[-1])) if helper is not None else short(pred)
        lower = [(sr, lr) for (sr, lr), v in table.items() if sr < 0 and v]
        higher = [(sr, lr) for (sr, lr), v in table.items() if sr > 0 and not v]
        words = {-1: 'shorter', 0: 'equally long', 1: 'longer'}
        if lower:
            r.violation(construct, 'the running best is replaced by a result with a LOWER score when its message is %s: the test `%s` '
                        'falls through to the message-length comparison without requiring equal scores (the equal-score guard is lost), '
                        'so the reported grade is not the best over the alternative answer lists'
                        % (' or '.join(words[lr] for sr, lr in sorted(lower)), src), where,
                        expected='replace iff score higher, or score equal and message longer', found=src)
        elif higher:
            r.violation(construct, 'a result with a HIGHER score does not replace the running best when its message is %s (`%s`)'
                        % (' or '.join(words[lr] for sr, lr in sorted(higher)), src), where)
        else:
            r.ok(construct, 'running best: a higher score always wins, a lower score never does', where)


# ------------------------------------------------------------------------ self-test
_LEN_BLOCK = ("        if self.config['length_error'] and len(answers) != len(student_list):\n"
              "            msg = 'List length error: Expected {} terms in the list, but received {}. ' + \\\n"
              "                  'Separate items with character \"{}\"'\n"
              "            raise MissingInput(msg.format(len(answers),\n"
              "                                          len(student_list),\n"
              "                                          self.config['delimiter']))\n")
_MID = "\n        # Check for empty entries in the list\n"
_BLANK_BLOCK = ("        if self.config['missing_error']:\n"
                "            bad_items = [idx+1 for (idx, item) in enumerate(student_list)\n"
                "                         if item.strip() == '']\n"
                "            if bad_items:\n"
                "                if len(bad_items) == 1:\n"
                "                    msg = 'List error: Empty entry detected in position '\n"
                "                else:\n"
                "                    msg = 'List error: Empty entries detected in positions '\n"
                "                msg += ', '.join(map(str, bad_items))\n"
                "                raise MissingInput(msg)\n")


_FOO_PAD = [("    result_matrix = [[check(a, i) for a in answers] for i in student_list]\n",
             "    pad_ans, pad_stud = get_padded_lists(answers, student_list)\n    checker = padded_check(check)\n"
             "    result_matrix = [[checker(a, i) for a in pad_ans] for i in pad_stud]\n"),
            ("        pad_ans, pad_stud = get_padded_lists(answers, student_list)\n        # Modify the check function to deal with the padding\n"
             "        checker = padded_check(self.config['subgrader'].check)\n\n        # Compute the results\n        if self.config['ordered']:\n"
             "            grade_list = [checker(*pair) for pair in zip(pad_ans, pad_stud)]\n        else:\n"
             "            grade_list = find_optimal_order(checker, pad_ans, pad_stud)\n",
             "        check = self.config['subgrader'].check\n        if self.config['ordered']:\n"
             "            pad_ans, pad_stud = get_padded_lists(answers, student_list)\n            checker = padded_check(check)\n"
             "            grade_list = [checker(*pair) for pair in zip(pad_ans, pad_stud)]\n        else:\n"
             "            grade_list = find_optimal_order(check, answers, student_list)\n")]
_FOO_READBACK = "    input_list = [result_matrix[i][j] for i, j in indexes]\n"
_BEST_OLD = ("        results = []\n        for answer in answers:\n            # Iterate through each entry in the expect tuple\n"
             "            answercopy = answer.copy()\n            for entry in answer['expect']:\n                answercopy['expect'] = entry\n"
             "                result = self.check_response(answercopy, student_input, **kwargs)\n                results.append(result)\n\n"
             "        # Now find the best result for the student\n        best_score = max([r['grade_decimal'] for r in results])\n"
             "        best_results = [r for r in results if r['grade_decimal'] == best_score]\n"
             "        best_result_with_longest_msg = max(best_results, key=lambda r: len(r['msg']))\n\n        # Add in wrong_msg if appropriate\n"
             "        if best_result_with_longest_msg['msg'] == \"\" and best_score == 0:\n"
             "            best_result_with_longest_msg['msg'] = self.config[\"wrong_msg\"]\n\n        return best_result_with_longest_msg\n")
_BEST_NEW = ("        best_result = None\n        for answer in answers:\n            answercopy = answer.copy()\n"
             "            for entry in answer['expect']:\n                answercopy['expect'] = entry\n"
             "                result = self.check_response(answercopy, student_input, **kwargs)\n"
             "                if best_result is None or self.is_better_result(result, best_result):\n                    best_result = result\n\n"
             "        if best_result['msg'] == \"\" and best_result['grade_decimal'] == 0:\n            best_result['msg'] = self.config[\"wrong_msg\"]\n\n"
             "        return best_result\n\n    @staticmethod\n    def is_better_result(result, incumbent):\n"
             "        if result['grade_decimal'] > incumbent['grade_decimal']:\n            return True\n        return %s\n")

_T_CLASS = ("class ListGrader(AbstractGrader):\n    \"\"\"\n    ListGrader grades lists of items according to a specified subgrader or list of\n",
            "def _earned_credit(item):\n    return item['grade_decimal'] > 0\n\nclass _GradeTally(object):\n"
            "    def __init__(self, input_list, awarded=_earned_credit):\n        self.grade_decimals = []\n        self.messages = []\n"
            "        self.num_awarded = 0\n        for item in input_list:\n            self.grade_decimals.append(item['grade_decimal'])\n"
            "            if item['msg'] != '':\n                self.messages.append(item['msg'])\n            if awarded(item):\n"
            "                self.num_awarded += 1\n\n    def result(self, n_expect=None, partial_credit=True):\n        if n_expect is None:\n"
            "            n_expect = len(self.grade_decimals)\n        grade_decimal = consolidate_grades(list(self.grade_decimals), n_expect)\n"
            "        if not partial_credit and grade_decimal < 1:\n            grade_decimal = 0\n        return {\n"
            "            'grade_decimal': grade_decimal,\n            'ok': AbstractGrader.grade_decimal_to_ok(grade_decimal),\n"
            "            'msg': '\\n'.join(self.messages)\n        }\n\n"
            "class ListGrader(AbstractGrader):\n    \"\"\"\n    ListGrader grades lists of items according to a specified subgrader or list of\n")
_T_USE_OLD = ("        result = consolidate_single_return(grade_list,\n                                           n_expect=num_answers,\n"
              "                                           partial_credit=self.config['partial_credit'])\n\n"
              "        # Check if all inputs were awarded credit\n        if not isinstance(self.config['subgrader'], SingleListGrader):\n"
              "            # Check to see if all items were awarded credit\n            all_awarded = all(item['grade_decimal'] > 0 for item in grade_list)\n"
              "        else:\n            # Check to see if all_awarded was True for all of the child SingleListGraders\n"
              "            all_awarded = all(item['all_awarded'] for item in grade_list)\n")
_T_USE_NEW = ("        if isinstance(self.config['subgrader'], SingleListGrader):\n"
              "            tally = _GradeTally(grade_list, awarded=lambda item: item['all_awarded'])\n        else:\n"
              "            tally = _GradeTally(grade_list)\n        result = tally.result(num_answers, self.config['partial_credit'])\n"
              "        all_awarded = tally.num_awarded == %s\n")

# wave-6 refactoring form: the padding value comes from the first matching row of a module-level (test, value) table
_PADRULES_USE = ("    if n_extra > 0:\n        grade_decimals += [-1] * n_extra\n    elif n_extra < 0:\n        grade_decimals += [0] * abs(n_extra)\n",
                 "    filler = next((value for applies, value in _PADDING_RULES if applies(n_extra)), None)\n"
                 "    if filler is not None:\n        grade_decimals += [filler] * abs(n_extra)\n")
_PADRULES_AT = "def consolidate_single_return(input_list, n_expect=None, partial_credit=True):\n"


def _padrules(surplus, missing, first='n_extra > 0', second='n_extra < 0'):
    return [_PADRULES_USE, (_PADRULES_AT, "_PADDING_RULES = (\n    (lambda n_extra: %s, %s),\n    (lambda n_extra: %s, %s),\n)\n\n\n%s"
                            % (first, surplus, second, missing, _PADRULES_AT))]


MUTANTS = [
    Mutant('padding-table-surplus-half-penalty', LG, _padrules('-0.5', '0'), None, 'D1'),
    Mutant('padding-table-missing-earns-credit', LG, _padrules('-1', '1'), None, 'D1'),
    Mutant('padding-table-rows-shadowed', LG, _padrules('0', '-1', first='n_extra != 0'), None, 'D1'),
    # D1
    Mutant('surplus-penalty-zero', LG, "        grade_decimals += [-1] * n_extra", "        grade_decimals += [0] * n_extra", 'D1'),
    Mutant('surplus-penalty-half', LG, "        grade_decimals += [-1] * n_extra", "        grade_decimals += [-0.5] * n_extra", 'D1'),
    Mutant('surplus-not-padded', LG, "    if n_extra > 0:\n        grade_decimals += [-1] * n_extra\n    elif n_extra < 0:", "    if n_extra < 0:", 'D1'),
    Mutant('surplus-guard-off-by-one', LG, "    if n_extra > 0:\n        grade_decimals += [-1] * n_extra", "    if n_extra > 1:\n        grade_decimals += [-1] * n_extra", 'D1'),
    Mutant('divisor-len-grades', LG, "    avg = sum(grade_decimals)/n_expect", "    avg = sum(grade_decimals)/len(grade_decimals)", 'D1'),
    Mutant('clamp-removed', LG, "    return max(0, avg)", "    return avg", 'D1'),
    Mutant('clamp-min', LG, "    return max(0, avg)", "    return min(0, avg)", 'D1'),
    Mutant('clamp-at-one', LG, "    return max(0, avg)", "    return max(1, avg)", 'D1'),
    Mutant('surplus-count-swapped', LG, "    n_extra = len(grade_decimals) - n_expect", "    n_extra = n_expect - len(grade_decimals)", 'D1'),
    Mutant('missing-penalised', LG, "        grade_decimals += [0] * abs(n_extra)", "        grade_decimals += [-1] * abs(n_extra)", 'D1'),
    # D2
    Mutant('switch-le-one', LG, "        if grade_decimal < 1:\n            grade_decimal = 0", "        if grade_decimal <= 1:\n            grade_decimal = 0", 'D2'),
    Mutant('switch-inverted', LG, "    if not partial_credit:\n        if grade_decimal < 1:", "    if partial_credit:\n        if grade_decimal < 1:", 'D2'),
    Mutant('switch-threshold', LG, "        if grade_decimal < 1:\n            grade_decimal = 0", "        if grade_decimal < 0.5:\n            grade_decimal = 0", 'D2'),
    Mutant('messages-unfiltered', LG, "'msg': '\\n'.join([message for message in messages if message != ''])", "'msg': '\\n'.join(messages)", 'D2'),
    Mutant('messages-filter-inverted', LG, "[message for message in messages if message != '']", "[message for message in messages if message == '']", 'D2'),
    Mutant('n-expect-not-forwarded', LG, "    grade_decimal = consolidate_grades(grade_decimals, n_expect)", "    grade_decimal = consolidate_grades(grade_decimals)", 'D2'),
    # D3
    Mutant('all-awarded-ge', LG, "all(item['grade_decimal'] > 0 for item in grade_list)", "all(item['grade_decimal'] >= 0 for item in grade_list)", 'D3'),
    Mutant('all-awarded-any', LG, "all(item['grade_decimal'] > 0 for item in grade_list)", "any(item['grade_decimal'] > 0 for item in grade_list)", 'D3'),
    Mutant('message-unconditional', LG, "        if all_awarded and msg != '':", "        if msg != '':", 'D3'),
    Mutant('message-when-not-awarded', LG, "        if all_awarded and msg != '':", "        if not all_awarded and msg != '':", 'D3'),
    Mutant('message-replaces-item-messages', LG, "            result['msg'] = msg if result['msg'] == '' else result['msg'] + '\\n' + msg", "            result['msg'] = msg", 'D3'),
    Mutant('ok-not-recomputed', LG, "        result['grade_decimal'] *= grade_decimal\n        result['ok'] = AbstractGrader.grade_decimal_to_ok(result['grade_decimal'])\n",
           "        result['grade_decimal'] *= grade_decimal\n", 'D3'),
    Mutant('ok-before-scaling', LG, "        result['grade_decimal'] *= grade_decimal\n        result['ok'] = AbstractGrader.grade_decimal_to_ok(result['grade_decimal'])\n",
           "        result['ok'] = AbstractGrader.grade_decimal_to_ok(result['grade_decimal'])\n        result['grade_decimal'] *= grade_decimal\n", 'D3'),
    Mutant('answer-credit-ignored', LG, "        result['grade_decimal'] *= grade_decimal\n", "", 'D3'),
    Mutant('answer-credit-added', LG, "        result['grade_decimal'] *= grade_decimal\n", "        result['grade_decimal'] += grade_decimal\n", 'D3'),
    Mutant('expected-count-from-grades', LG, "                                           n_expect=num_answers,", "                                           n_expect=len(grade_list),", 'D3'),
    Mutant('partial-credit-not-forwarded', LG, "partial_credit=self.config['partial_credit'])", "partial_credit=True)", 'D3'),
    Mutant('all-awarded-not-published', LG, "        result['all_awarded'] = all_awarded\n", "", 'D3'),
    # D4
    Mutant('checks-swapped', LG, _LEN_BLOCK + _MID + _BLANK_BLOCK, _BLANK_BLOCK + _MID + _LEN_BLOCK, 'D4'),
    Mutant('length-error-class', LG, "            raise MissingInput(msg.format(len(answers),", "            raise ConfigError(msg.format(len(answers),", 'D4'),
    Mutant('blank-error-class', LG, "                raise MissingInput(msg)", "                raise ValueError(msg)", 'D4'),
    Mutant('length-condition-eq', LG, "if self.config['length_error'] and len(answers) != len(student_list):", "if self.config['length_error'] and len(answers) == len(student_list):", 'D4'),
    Mutant('length-flag-ignored', LG, "if self.config['length_error'] and len(answers) != len(student_list):", "if len(answers) != len(student_list):", 'D4'),
    Mutant('length-check-after-grading', LG, _LEN_BLOCK + _MID, _MID[1:], 'D4'),
    Mutant('blank-no-strip', LG, "                         if item.strip() == '']", "                         if item == '']", 'D4'),
    Mutant('blank-test-falsy', LG, "                         if item.strip() == '']", "                         if not item]", 'D4'),
    Mutant('blank-test-zero-length', LG, "                         if item.strip() == '']", "                         if len(item) == 0]", 'D4'),
    Mutant('blank-flag-inverted', LG, "        if self.config['missing_error']:\n            bad_items", "        if not self.config['missing_error']:\n            bad_items", 'D4'),
    Mutant('unordered-unpadded', LG, "grade_list = find_optimal_order(checker, pad_ans, pad_stud)", "grade_list = find_optimal_order(checker, answers, student_list)", 'D4'),
    Mutant('unordered-raw-check', LG, "grade_list = find_optimal_order(checker, pad_ans, pad_stud)", "grade_list = find_optimal_order(self.config['subgrader'].check, pad_ans, pad_stud)", 'D4'),
    Mutant('unordered-roles-swapped', LG, "grade_list = find_optimal_order(checker, pad_ans, pad_stud)", "grade_list = find_optimal_order(checker, pad_stud, pad_ans)", 'D4'),
    Mutant('ordered-unpadded-zip', LG, "for pair in zip(pad_ans, pad_stud)]", "for pair in zip(answers, student_list)]", 'D4'),
    Mutant('ordered-zip-swapped', LG, "for pair in zip(pad_ans, pad_stud)]", "for pair in zip(pad_stud, pad_ans)]", 'D4'),
    Mutant('ordered-switch-inverted', LG, "        if self.config['ordered']:\n            grade_list = [checker", "        if not self.config['ordered']:\n            grade_list = [checker", 'D4'),
    Mutant('expected-count-from-submission', LG, "self.process_grade_list(grade_list, len(answers), msg, grade_decimal)", "self.process_grade_list(grade_list, len(student_list), msg, grade_decimal)", 'D4'),
    Mutant('padding-roles-swapped', LG, "pad_ans, pad_stud = get_padded_lists(answers, student_list)", "pad_stud, pad_ans = get_padded_lists(answers, student_list)", 'D4'),
    Mutant('split-on-comma', LG, "student_list = student_input.split(self.config['delimiter'])", "student_list = student_input.split(',')", 'D4'),
    Mutant('process-grade-list-keywords-crossed', LG, "return self.process_grade_list(grade_list, len(answers), msg, grade_decimal)",
           "return self.process_grade_list(grade_list=grade_list, num_answers=len(student_list), msg=msg, grade_decimal=grade_decimal)", 'D4'),
    Mutant('answer-credit-constant', LG, "        grade_decimal = answer['grade_decimal']\n\n        # Split", "        grade_decimal = 1\n\n        # Split", 'D4'),
    # D5
    Mutant('failure-needs-both-sides', LG, "isinstance(ans, _AutomaticFailure) or isinstance(inp, _AutomaticFailure)", "isinstance(ans, _AutomaticFailure) and isinstance(inp, _AutomaticFailure)", 'D5'),
    Mutant('failure-only-answer-side', LG, "isinstance(ans, _AutomaticFailure) or isinstance(inp, _AutomaticFailure)", "isinstance(ans, _AutomaticFailure)", 'D5'),
    Mutant('failure-all-awarded', LG, "'grade_decimal': 0, 'all_awarded': False}", "'grade_decimal': 0, 'all_awarded': True}", 'D5'),
    Mutant('failure-full-credit', LG, "'grade_decimal': 0, 'all_awarded': False}", "'grade_decimal': 1, 'all_awarded': False}", 'D5'),
    Mutant('failure-result-hoisted-wrong', LG, "def padded_check(check):\n    \"\"\"Wraps a check function to reject _AutomaticFailure\"\"\"\n    def _check(ans, inp):\n        if isinstance(ans, _AutomaticFailure) or isinstance(inp, _AutomaticFailure):\n            return {'ok': False, 'msg': '', 'grade_decimal': 0, 'all_awarded': False}",
           "_FAILED = {'ok': False, 'msg': '', 'grade_decimal': 0, 'all_awarded': True}\n\ndef padded_check(check):\n    \"\"\"Wraps a check function to reject _AutomaticFailure\"\"\"\n    def _check(ans, inp):\n        if isinstance(ans, _AutomaticFailure) or isinstance(inp, _AutomaticFailure):\n            return _FAILED.copy()", 'D5'),
    Mutant('failure-no-all-awarded', LG, "'grade_decimal': 0, 'all_awarded': False}", "'grade_decimal': 0}", 'D5'),
    Mutant('pad-inputs-only', LG, "    padded1 = list1 + [_AutomaticFailure()]*(maxlen-len(list1))", "    padded1 = list1", 'D5'),
    Mutant('pad-answers-only', LG, "    padded2 = list2 + [_AutomaticFailure()]*(maxlen-len(list2))", "    padded2 = list2[:]", 'D5'),
    Mutant('pad-to-minimum', LG, "    maxlen = max(len(list1), len(list2))", "    maxlen = min(len(list1), len(list2))", 'D5'),
    Mutant('pad-in-place', LG, "    padded1 = list1 + [_AutomaticFailure()]*(maxlen-len(list1))", "    list1 += [_AutomaticFailure()]*(maxlen-len(list1))\n    padded1 = list1", 'D5'),
    Mutant('padded-check-unwrapped', LG, "        return check(ans, inp)\n    return _check", "        return check(ans, inp)\n    return check", 'D5'),
    Mutant('padded-check-args-swapped', LG, "        return check(ans, inp)\n    return _check", "        return check(inp, ans)\n    return _check", 'D5'),
    # D7 (the solver; same edits as in C06)
    Mutant('solver-step6-skips-covered-rows', MK, "                if self.row_covered[i]:\n                    self.C[i][j] += minval\n                    events += 1\n                if not self.col_covered[j]:",
           "                if self.row_covered[i]:\n                    continue\n                if not self.col_covered[j]:", 'D7'),
    Mutant('solver-step6-elif', MK, "                if not self.col_covered[j]:\n                    self.C[i][j] -= minval\n                    events += 1\n                if self.row_covered[i] and not self.col_covered[j]:\n                    events -= 2 # change reversed, no real difference\n",
           "                elif not self.col_covered[j]:\n                    self.C[i][j] -= minval\n                    events += 1\n", 'D7'),
    Mutant('solver-step1-subtracts-max', MK, "            minval = min(vals)", "            minval = max(vals)", 'D7'),
    Mutant('solver-result-rows-over-n', MK, "        for i in range(self.original_length):", "        for i in range(self.n):", 'D7'),
    # D8 (find_optimal_order, shared with C05.D2)
    Mutant('matching-cost-rounded', LG, "        return 1 - result['grade_decimal']", "        return round(1 - result['grade_decimal'], 2)", 'D8'),
    Mutant('matching-cost-truncated', LG, "        return 1 - result['grade_decimal']", "        return int(100 * (1 - result['grade_decimal']))", 'D8'),
    Mutant('matching-cost-is-credit', LG, "        return 1 - result['grade_decimal']", "        return result['grade_decimal']", 'D8'),
    Mutant('matching-matrix-transposed', LG, "[[check(a, i) for a in answers] for i in student_list]", "[[check(a, i) for i in student_list] for a in answers]", 'D8'),
    Mutant('matching-readback-transposed', LG, "[result_matrix[i][j] for i, j in indexes]", "[result_matrix[j][i] for i, j in indexes]", 'D8'),
    Mutant('expect-items-stripped-only', LG, "        answers = expect.split(self.config['delimiter'])", "        answers = [entry.strip() for entry in expect.split(self.config['delimiter'])]", 'D6'),
    Mutant('submission-items-stripped-only', LG, "        student_list = student_input.split(self.config['delimiter'])", "        student_list = [item.strip() for item in student_input.split(self.config['delimiter'])]", 'D6'),
    Mutant('expect-empty-items-dropped', LG, "        answers = expect.split(self.config['delimiter'])", "        answers = [entry for entry in expect.split(self.config['delimiter']) if entry]", 'D6'),
    Mutant('best-by-min', BASE, "        best_score = max([r['grade_decimal'] for r in results])", "        best_score = min([r['grade_decimal'] for r in results])", 'D9'),
    # wave 5: refactorings with one slip (corrected forms are BENIGN twins)
    Mutant('padding-in-callee-drops-unmatched-expected', LG, _FOO_PAD + [(_FOO_READBACK, "    input_list = [result_matrix[i][j] for i, j in indexes if i < len(student_list)]\n")], None, 'D8'),
    Mutant('running-best-lost-equal-score-guard', BASE, _BEST_OLD, _BEST_NEW % "len(result['msg']) > len(incumbent['msg'])", 'D9'),
    # wave 6: consolidation and the all() scans folded into an accumulator class
    Mutant('tally-awarded-count-against-expected-count', LG, [_T_CLASS, (_T_USE_OLD, _T_USE_NEW % 'num_answers')], None, 'D3'),
    # D6
    Mutant('infer-literal-delimiter', LG, "        answers = expect.split(self.config['delimiter'])", "        answers = expect.split(',')", 'D6'),
    Mutant('infer-recursion-on-self', LG, "answers[idx] = self.config['subgrader'].infer_from_expect(entry)", "answers[idx] = self.infer_from_expect(entry)", 'D6'),
    Mutant('strings-test-inverted', LG, "self.infer_from_expect(x) if isinstance(x, str) else x", "self.infer_from_expect(x) if not isinstance(x, str) else x", 'D6'),
]

BENIGN = [
    Benign('padding-from-first-matching-table-row', LG, _padrules('-1', '0'), None),
    Benign('padding-table-rows-reordered', LG, _padrules('0', '-1', first='n_extra < 0', second='n_extra > 0'), None),
    Benign('clamp-argument-order', LG, "    return max(0, avg)", "    return max(avg, 0)"),
    Benign('missing-padding-dropped', LG, "    elif n_extra < 0:\n        grade_decimals += [0] * abs(n_extra)\n", ""),
    Benign('surplus-guard-ge-one', LG, "    if n_extra > 0:\n        grade_decimals += [-1] * n_extra", "    if n_extra >= 1:\n        grade_decimals += [-1] * n_extra"),
    Benign('surplus-new-list', LG, "        grade_decimals += [-1] * n_extra", "        grade_decimals = grade_decimals + [-1] * n_extra"),
    Benign('switch-combined', LG, "    if not partial_credit:\n        if grade_decimal < 1:\n            grade_decimal = 0\n", "    if not partial_credit and grade_decimal < 1:\n        grade_decimal = 0\n"),
    Benign('ok-before-zeroing', LG, "    if not partial_credit:\n        if grade_decimal < 1:\n            grade_decimal = 0\n    ok_status = AbstractGrader.grade_decimal_to_ok(grade_decimal)\n",
           "    ok_status = AbstractGrader.grade_decimal_to_ok(grade_decimal)\n    if not partial_credit:\n        if grade_decimal < 1:\n            grade_decimal = 0\n"),
    Benign('length-taken-once', LG, "    if n_expect is None:\n        n_expect = len(grade_decimals)\n\n    n_extra = len(grade_decimals) - n_expect\n",
           "    n_given = len(grade_decimals)\n    if n_expect is None:\n        n_expect = n_given\n\n    n_extra = n_given - n_expect\n"),
    Benign('message-append-if-else', LG, "            result['msg'] = msg if result['msg'] == '' else result['msg'] + '\\n' + msg\n",
           "            if result['msg'] == '':\n                result['msg'] = msg\n            else:\n                result['msg'] += '\\n' + msg\n"),
    Benign('scaled-grade-temporary', LG, "        result['grade_decimal'] *= grade_decimal\n        result['ok'] = AbstractGrader.grade_decimal_to_ok(result['grade_decimal'])\n",
           "        scaled_grade = result['grade_decimal'] * grade_decimal\n        result['grade_decimal'] = scaled_grade\n        result['ok'] = AbstractGrader.grade_decimal_to_ok(scaled_grade)\n"),
    Benign('nested-test-unnegated', LG, "        if not isinstance(self.config['subgrader'], SingleListGrader):\n            # Check to see if all items were awarded credit\n            all_awarded = all(item['grade_decimal'] > 0 for item in grade_list)\n        else:\n            # Check to see if all_awarded was True for all of the child SingleListGraders\n            all_awarded = all(item['all_awarded'] for item in grade_list)\n",
           "        if isinstance(self.config['subgrader'], SingleListGrader):\n            all_awarded = all(item['all_awarded'] for item in grade_list)\n        else:\n            all_awarded = all(item['grade_decimal'] > 0 for item in grade_list)\n"),
    Benign('failure-test-as-any', LG, "        if isinstance(ans, _AutomaticFailure) or isinstance(inp, _AutomaticFailure):", "        if any(isinstance(entry, _AutomaticFailure) for entry in (ans, inp)):"),
    Benign('checks-in-helpers', LG, "        if self.config['length_error'] and len(answers) != len(student_list):\n            msg = 'List length error",
           "        if self.config['length_error'] and not len(answers) == len(student_list):\n            msg = 'List length error"),
    Benign('matching-cost-scaled', LG, "        return 1 - result['grade_decimal']", "        return 100 * (1 - result['grade_decimal'])"),
    Benign('blank-test-not-strip', LG, "                         if item.strip() == '']", "                         if not item.strip()]"),
    Benign('blank-test-isspace', LG, "                         if item.strip() == '']", "                         if item == '' or item.isspace()]"),
    Benign('failure-result-hoisted', LG, "def padded_check(check):\n    \"\"\"Wraps a check function to reject _AutomaticFailure\"\"\"\n    def _check(ans, inp):\n        if isinstance(ans, _AutomaticFailure) or isinstance(inp, _AutomaticFailure):\n            return {'ok': False, 'msg': '', 'grade_decimal': 0, 'all_awarded': False}",
           "_FAILED = {'ok': False, 'msg': '', 'grade_decimal': 0, 'all_awarded': False}\n\ndef padded_check(check):\n    \"\"\"Wraps a check function to reject _AutomaticFailure\"\"\"\n    def _check(ans, inp):\n        if isinstance(ans, _AutomaticFailure) or isinstance(inp, _AutomaticFailure):\n            return dict(_FAILED)"),
    Benign('infer-early-return-and-comprehension', LG, "        if isinstance(self.config['subgrader'], SingleListGrader):\n            for idx, entry in enumerate(answers):\n                answers[idx] = self.config['subgrader'].infer_from_expect(entry)\n\n        # Return the result\n        return answers",
           "        subgrader = self.config['subgrader']\n        if not isinstance(subgrader, SingleListGrader):\n            return answers\n        return [subgrader.infer_from_expect(entry) for entry in answers]"),
    Benign('process-grade-list-by-keyword', LG, "return self.process_grade_list(grade_list, len(answers), msg, grade_decimal)",
           "return self.process_grade_list(grade_list=grade_list, num_answers=len(answers), msg=msg, grade_decimal=grade_decimal)"),
    Benign('padded-check-conditional-expression', LG, "        if isinstance(ans, _AutomaticFailure) or isinstance(inp, _AutomaticFailure):\n            return {'ok': False, 'msg': '', 'grade_decimal': 0, 'all_awarded': False}\n        return check(ans, inp)",
           "        return ({'ok': False, 'msg': '', 'grade_decimal': 0, 'all_awarded': False}\n                if isinstance(ans, _AutomaticFailure) or isinstance(inp, _AutomaticFailure) else check(ans, inp))"),
    Benign('padding-moved-into-find-optimal-order', LG, _FOO_PAD, None),
    Benign('tally-awarded-count-against-graded-count', LG, [_T_CLASS, (_T_USE_OLD, _T_USE_NEW % 'len(grade_list)')], None),
    Benign('expect-split-through-list', LG, "        answers = expect.split(self.config['delimiter'])", "        answers = list(expect.split(self.config['delimiter']))"),
    Benign('all-awarded-list-form', LG, "all(item['grade_decimal'] > 0 for item in grade_list)", "all([item['grade_decimal'] > 0 for item in grade_list])"),
    Benign('message-guard-nested', LG, "        if all_awarded and msg != '':\n            result['msg'] = msg if result['msg'] == '' else result['msg'] + '\\n' + msg",
           "        if all_awarded:\n            if msg != '':\n                result['msg'] = msg if result['msg'] == '' else result['msg'] + '\\n' + msg"),
    Benign('ordered-explicit-pairs', LG, "grade_list = [checker(*pair) for pair in zip(pad_ans, pad_stud)]", "grade_list = [checker(a, s) for a, s in zip(pad_ans, pad_stud)]"),
    Benign('length-message-reworded', LG, "msg = 'List length error: Expected {} terms in the list, but received {}. ' + \\", "msg = 'Wrong number of items: expected {}, received {}. ' + \\"),
    Benign('scaling-explicit', LG, "        result['grade_decimal'] *= grade_decimal\n", "        result['grade_decimal'] = grade_decimal * result['grade_decimal']\n"),
    Benign('statement-before-grading', LG, "        pad_ans, pad_stud = get_padded_lists(answers, student_list)\n", "        n_items = len(student_list)\n        pad_ans, pad_stud = get_padded_lists(answers, student_list)\n"),
    Benign('infer-no-recursion', LG, "            for idx, entry in enumerate(answers):\n                answers[idx] = self.config['subgrader'].infer_from_expect(entry)\n", "            pass\n"),
]
